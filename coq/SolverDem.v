(** C04 — the solution is exactly the demand closure.  A second invariant, carried next to [Inv]:
    every scheduled line has a well-founded reason (requested form / requested field / read by a scheduled line /
    required line of the form of such a read), every participating form likewise. *)
From Coq Require Import ZArith NArith List Bool Lia Permutation.
From HV Require Import Solver TrackerProofs RunLemmas SolverInd SolverInv SolverThms.
Import ListNotations.

Arguments add_names : simpl never.
Arguments sort_rank : simpl never.
Arguments add_unmet : simpl never.
Arguments run : simpl never.
Arguments reads : simpl never.

Section Dem.
Context (C:catalogue) (rank:name -> N) (ans:name -> option V).
Context (R FN:list name).

(* names are "form.line": the lines a form declares belong to that form *)
Definition cat_wf : Prop :=
  forall F fi l, c_form C F = Some fi -> In l (f_required fi ++ f_optional fi) -> c_form_of_line C l = F.

Inductive DemE (E:list (name * name)) : name -> Prop :=
| de_req F fi f : In F R -> c_form C F = Some fi -> In f (f_required fi) -> DemE E f
| de_fld f : In f FN -> DemE E f
| de_edge g d : DemE E g -> In (g, d) E -> DemE E d
| de_form g d fi f : DemE E g -> In (g, d) E -> c_form C (c_form_of_line C d) = Some fi ->
                     In f (f_required fi) -> DemE E f.

Lemma DemE_mono E E' f : (forall x, In x E -> In x E') -> DemE E f -> DemE E' f.
Proof.
  intros Hi H. induction H.
  - eapply de_req; eassumption.
  - apply de_fld; assumption.
  - eapply de_edge; eauto.
  - eapply de_form; eauto.
Qed.

Definition sreads (s:state) (g:name) : list name := reads (c_body C g) (specs s) (inp s) (vals s).

Record Inv2 (s:state) : Prop := {
  j_dem : forall f, In f (solving s) -> DemE (edges s) f;
  j_forms : forall F, In F (forms s) ->
      In F R \/ exists g d, DemE (edges s) g /\ In (g, d) (edges s) /\ c_form_of_line C d = F;
  j_edge_sol : forall g d, In (g, d) (edges s) -> In g (solving s);
  j_edge_sem : forall g d, In (g, d) (edges s) -> In d (sreads s g);
  j_forms_req : forall F fi f, In F (forms s) -> c_form C F = Some fi -> In f (f_required fi) -> In f (solving s);
  j_sol_fmap : forall f, In f (solving s) -> In f (fmap s);
  j_fmap_form : forall d, In d (fmap s) -> In (c_form_of_line C d) (forms s)
}.

Definition ext (s s':state) : Prop :=
  ssub (specs s) (specs s') /\ sub (inp s) (inp s') /\ sub (vals s) (vals s').

Lemma ext_refl s : ext s s.
Proof. repeat split; auto using ssub_refl, sub_refl. Qed.
Lemma ext_trans a b c : ext a b -> ext b c -> ext a c.
Proof. intros (A1 & A2 & A3) (B1 & B2 & B3). repeat split; eauto using ssub_trans, sub_trans. Qed.

Lemma sreads_ext s s' g d : ext s s' -> In d (sreads s g) -> In d (sreads s' g).
Proof. intros (A1 & A2 & A3). apply reads_mono; assumption. Qed.

Lemma add_form_ext F io s s' : add_form C rank F io s = inl s' -> ext s s'.
Proof.
  intros H. destruct (add_form_spec C rank ans _ _ _ _ H) as (fi & _ & Ei & Ev & _ & _ & _ & _ & _ & _ & Hsp & _).
  unfold ext. rewrite Ei, Ev. repeat split; auto using sub_refl. intros x Hx. apply Hsp. auto.
Qed.

(* stores only grow during an attempt (uses the core invariant: an overwritten value is the same value) *)
Lemma attempt_ext b fuel : forall f pend s s',
  Inv C b (f :: pend) s -> attempt_field C rank fuel f s = inl s' -> ext s s'.
Proof.
  induction fuel as [|n IH]; intros f pend s s' HI H; [discriminate|].
  cbn [attempt_field] in H.
  apply (Inv_log _ _ _ _ (EvAttempt f)) in HI.
  assert (Hs0 : ext s (log (EvAttempt f) s)) by (unfold ext; cbn; repeat split; auto using ssub_refl, sub_refl).
  set (s0 := log (EvAttempt f) s) in *. clearbody s0.
  apply (ext_trans _ _ _ Hs0). clear Hs0.
  destruct (run (c_body C f) (specs s0) (inp s0) (vals s0)) as [v|d|i|i|i| |c] eqn:Er; try discriminate.
  - inversion H; subst s'; clear H. unfold ext; cbn. repeat split; auto using ssub_refl, sub_refl.
    destruct (alookup f (vals s0)) as [v0|] eqn:E0; [|apply sub_aset_new; exact E0].
    apply sub_aset_same. pose proof (i_sound _ _ _ _ HI f v0 E0) as X. unfold srun in X. rewrite Er in X.
    inversion X; subst. exact E0.
  - match type of H with match ?r with _ => _ end = _ => destruct r as [s3|e] eqn:Es3; [|discriminate] end.
    inversion H; subst s'; clear H.
    assert (H3 : ext s0 s3).
    { destruct (mem d (solving s0)); [inversion Es3; subst; apply ext_refl|].
      match type of Es3 with match ?r1 with _ => _ end = _ => destruct r1 as [s1|e] eqn:Es1; [|discriminate] end.
      destruct (mem d (fmap s1)); [|discriminate].
      assert (H1 : ext s0 s1).
      { destruct (mem d (fmap s0)); [inversion Es1; subst; apply ext_refl|]. eapply add_form_ext; eassumption. }
      destruct (mem d (solving s1)); [inversion Es3; subst s3; exact H1|]. inversion Es3; subst s3; clear Es3.
      destruct H1 as (A & B & D). unfold ext, add_unattempted; cbn. auto. }
    destruct H3 as (A & B & D). unfold ext; cbn. auto.
  - inversion H; subst s'; clear H. unfold ext; cbn; repeat split; auto using ssub_refl, sub_refl.
  - destruct (add_form C rank (c_form_of_input C i) true s0) as [s1|e] eqn:Es1; [|discriminate].
    destruct (mem i (specs s1)); [|discriminate].
    apply (ext_trans _ s1); [eapply add_form_ext; eassumption|].
    apply (IH f pend s1 s'); [|exact H]. eapply Inv_add_form; eassumption.
  - inversion H; subst s'; clear H. unfold ext; cbn; repeat split; auto using ssub_refl, sub_refl.
Qed.

Lemma Inv2_ext_same s s' :
  ext s s' -> forms s' = forms s -> fmap s' = fmap s -> solving s' = solving s -> edges s' = edges s ->
  Inv2 s -> Inv2 s'.
Proof.
  intros He Ef Em Es Ee []. constructor; rewrite ?Ef, ?Em, ?Es, ?Ee; try assumption.
  intros g d Hin. apply (sreads_ext s s'); auto.
Qed.

Lemma Inv2_add_form_req F s s' :
  In F R -> Inv2 s -> add_form C rank F false s = inl s' -> cat_wf -> Inv2 s'.
Proof.
  intros HR HJ H Hwf. pose proof (add_form_ext _ _ _ _ H) as He.
  destruct (add_form_spec C rank ans _ _ _ _ H) as (fi & Hfi & _ & _ & _ & _ & _ & _ & _ & Ee & _ & Hf & Hm & _ & Hs).
  destruct HJ. constructor; rewrite ?Ee.
  - intros f Hf0. apply Hs in Hf0 as [Hf0|Hf0]; [eapply de_req; eassumption|auto].
  - intros F0 HF0. apply Hf in HF0 as [->|HF0]; [left; exact HR|auto].
  - intros g d Hin. apply Hs. right. eauto.
  - intros g d Hin. apply (sreads_ext s s'); auto.
  - intros F0 fi0 f HF0 Hc Hin. apply Hs. apply Hf in HF0 as [->|HF0].
    + rewrite Hfi in Hc. inversion Hc; subst. auto.
    + right. eauto.
  - intros f Hf0. apply Hm. apply Hs in Hf0 as [Hf0|Hf0]; [left; left; exact Hf0|right; auto].
  - intros d Hd. apply Hf. apply Hm in Hd as [Hd|Hd].
    + left. apply (Hwf F fi d Hfi). apply in_or_app. exact Hd.
    + right. auto.
Qed.

Lemma Inv2_log s e : Inv2 s -> Inv2 (log e s).
Proof. intros []. constructor; assumption. Qed.

Lemma Inv2_attempt b fuel : cat_wf -> forall f pend s s',
  Inv C b (f :: pend) s -> Inv2 s -> attempt_field C rank fuel f s = inl s' -> Inv2 s'.
Proof.
  intros Hwf. induction fuel as [|n IH]; intros f pend s s' HI HJ H; [discriminate|].
  pose proof (attempt_ext _ _ _ _ _ _ HI H) as Hext.
  cbn [attempt_field] in H.
  apply (Inv_log _ _ _ _ (EvAttempt f)) in HI. apply (Inv2_log _ (EvAttempt f)) in HJ.
  assert (Hext0 : ext (log (EvAttempt f) s) s') by exact Hext.
  set (s0 := log (EvAttempt f) s) in *. clearbody s0. clear Hext.
  destruct (run (c_body C f) (specs s0) (inp s0) (vals s0)) as [v|d|i|i|i| |c] eqn:Er; try discriminate.
  - inversion H; subst s'; clear H. apply (Inv2_ext_same s0); auto.
  - (* blocked on line d *)
    assert (Hfsol : In f (solving s0)) by (apply (i_pend_sol _ _ _ _ HI); left; reflexivity).
    assert (Hrd : In d (sreads s0 f)) by (apply needv_reads; exact Er).
    match type of H with match ?r with _ => _ end = _ => destruct r as [s3|e] eqn:Es3; [|discriminate] end.
    inversion H; subst s'; clear H.
    destruct HJ.
    destruct (mem d (solving s0)) eqn:Em.
    + inversion Es3; subst s3; clear Es3. apply mem_in in Em.
      constructor; cbn [edges forms fmap solving].
      * intros g Hg. apply (DemE_mono (edges s0)); [intros x Hx; right; exact Hx|auto].
      * intros F HF. destruct (j_forms0 F HF) as [X|(g & d0 & X1 & X2 & X3)]; [left; exact X|right].
        exists g, d0. split; [apply (DemE_mono (edges s0)); [intros x Hx; right; exact Hx|exact X1]|].
        split; [right; exact X2|exact X3].
      * intros g d0 [E|Hin]; [inversion E; subst; exact Hfsol|eauto].
      * intros g d0 [E|Hin]; [inversion E; subst|]; apply (sreads_ext s0); auto.
      * assumption.
      * assumption.
      * assumption.
    + match type of Es3 with match ?r1 with _ => _ end = _ => destruct r1 as [s1|e] eqn:Es1; [|discriminate] end.
      destruct (mem d (fmap s1)) eqn:Emf; [|discriminate].
      apply mem_in in Emf.
      destruct (mem d (solving s1)) eqn:Ems1.
      { (* d is a required line of the form just added: add_form scheduled it *)
        inversion Es3; subst s3; clear Es3. apply mem_in in Ems1.
        assert (Hdf : DemE ((f, d) :: edges s0) f).
        { apply (DemE_mono (edges s0)); [intros x Hx; right; exact Hx|auto]. }
        assert (Hdd : DemE ((f, d) :: edges s0) d) by (eapply de_edge; [exact Hdf|left; reflexivity]).
        destruct (mem d (fmap s0)) eqn:Em0.
        { inversion Es1; subst s1. apply mem_false in Em. contradiction. }
        destruct (add_form_spec C rank ans _ _ _ _ Es1) as (fi & Hfi & _ & _ & _ & _ & _ & _ & _ & Ee & _ & Hf & Hm & _ & Hs).
        constructor; cbn [edges forms fmap solving]; rewrite ?Ee.
        -- intros g Hg. apply Hs in Hg as [Hg|Hg].
           ++ eapply de_form; [exact Hdf|left; reflexivity|exact Hfi|exact Hg].
           ++ apply (DemE_mono (edges s0)); [intros x Hx; right; exact Hx|auto].
        -- intros F HF. apply Hf in HF as [->|HF].
           ++ right. exists f, d. split; [exact Hdf|]. split; [left; reflexivity|reflexivity].
           ++ destruct (j_forms0 F HF) as [X|(g & d0 & X1 & X2 & X3)]; [left; exact X|right].
              exists g, d0. split; [apply (DemE_mono (edges s0)); [intros x Hx; right; exact Hx|exact X1]|].
              split; [right; exact X2|exact X3].
        -- intros g d0 [E|Hin]; apply Hs; right; [inversion E; subst; exact Hfsol|eauto].
        -- intros g d0 [E|Hin]; [inversion E; subst|]; apply (sreads_ext s0); auto.
        -- intros F fi0 f0 HF Hc Hin. apply Hs. apply Hf in HF as [->|HF].
           ++ rewrite Hfi in Hc. inversion Hc; subst. left. exact Hin.
           ++ right. eauto.
        -- intros g Hg. apply Hm. apply Hs in Hg as [Hg|Hg]; [left; left; exact Hg|right; auto].
        -- intros d0 Hd0. apply Hf. apply Hm in Hd0 as [Hd0|Hd0].
           ++ left. apply (Hwf _ fi d0 Hfi). apply in_or_app. exact Hd0.
           ++ right. auto. }
      inversion Es3; subst s3; clear Es3.
      assert (Hdf : DemE ((f, d) :: edges s0) f).
      { apply (DemE_mono (edges s0)); [intros x Hx; right; exact Hx|auto]. }
      assert (Hdd : DemE ((f, d) :: edges s0) d) by (eapply de_edge; [exact Hdf|left; reflexivity]).
      unfold add_unattempted in *. cbn [edges forms fmap solving specs inp vals] in *.
      destruct (mem d (fmap s0)) eqn:Em0.
      * (* the form of d is already known *)
        inversion Es1; subst s1; clear Es1.
        constructor; cbn [edges forms fmap solving].
        -- intros g Hg. apply add_names_in in Hg as [[<-|[]]|Hg]; [exact Hdd|].
           apply (DemE_mono (edges s0)); [intros x Hx; right; exact Hx|auto].
        -- intros F HF. destruct (j_forms0 F HF) as [X|(g & d0 & X1 & X2 & X3)]; [left; exact X|right].
           exists g, d0. split; [apply (DemE_mono (edges s0)); [intros x Hx; right; exact Hx|exact X1]|].
           split; [right; exact X2|exact X3].
        -- intros g d0 [E|Hin]; [inversion E; subst; apply add_names_in; right; exact Hfsol|].
           apply add_names_in. right. eauto.
        -- intros g d0 [E|Hin]; [inversion E; subst|]; apply (sreads_ext s0); auto.
        -- intros F fi f0 HF Hc Hin. apply add_names_in. right. eauto.
        -- intros g Hg. apply add_names_in in Hg as [[<-|[]]|Hg]; auto.
        -- assumption.
      * (* first reference into a new form: add it *)
        destruct (add_form_spec C rank ans _ _ _ _ Es1) as (fi & Hfi & _ & _ & _ & _ & _ & _ & _ & Ee & _ & Hf & Hm & _ & Hs).
        constructor; cbn [edges forms fmap solving]; rewrite ?Ee.
        -- intros g Hg. apply add_names_in in Hg as [[<-|[]]|Hg]; [exact Hdd|].
           apply Hs in Hg as [Hg|Hg].
           ++ eapply de_form; [exact Hdf|left; reflexivity|exact Hfi|exact Hg].
           ++ apply (DemE_mono (edges s0)); [intros x Hx; right; exact Hx|auto].
        -- intros F HF. apply Hf in HF as [->|HF].
           ++ right. exists f, d. split; [exact Hdf|]. split; [left; reflexivity|reflexivity].
           ++ destruct (j_forms0 F HF) as [X|(g & d0 & X1 & X2 & X3)]; [left; exact X|right].
              exists g, d0. split; [apply (DemE_mono (edges s0)); [intros x Hx; right; exact Hx|exact X1]|].
              split; [right; exact X2|exact X3].
        -- intros g d0 [E|Hin]; apply add_names_in; right; apply Hs; right; [inversion E; subst; exact Hfsol|eauto].
        -- intros g d0 [E|Hin]; [inversion E; subst|]; apply (sreads_ext s0); auto.
        -- intros F fi0 f0 HF Hc Hin. apply add_names_in. right. apply Hs. apply Hf in HF as [->|HF].
           ++ rewrite Hfi in Hc. inversion Hc; subst. left. exact Hin.
           ++ right. eauto.
        -- intros g Hg. apply add_names_in in Hg as [[<-|[]]|Hg]; [exact Emf|].
           apply Hm. apply Hs in Hg as [Hg|Hg]; [left; left; exact Hg|right; auto].
        -- intros d0 Hd0. apply Hf. apply Hm in Hd0 as [Hd0|Hd0].
           ++ left. apply (Hwf _ fi d0 Hfi). apply in_or_app. exact Hd0.
           ++ right. auto.
  - inversion H; subst s'; clear H. apply (Inv2_ext_same s0); auto.
  - destruct (add_form C rank (c_form_of_input C i) true s0) as [s1|e] eqn:Es1; [|discriminate].
    destruct (mem i (specs s1)); [|discriminate].
    apply (IH f pend s1 s'); [eapply Inv_add_form; eassumption| |exact H].
    destruct (add_form_spec C rank ans _ _ _ _ Es1) as (fi & _ & _ & _ & _ & _ & _ & _ & _ & Ee & _ & (Ef & Em & _ & Es)).
    apply (Inv2_ext_same s0); auto. eapply add_form_ext; eassumption.
  - inversion H; subst s'; clear H. apply (Inv2_ext_same s0); auto.
Qed.

(* the prompting phase only grows the input store *)
Lemma prompt_all_same l : forall s,
  let s' := prompt_all ans l s in
  specs s' = specs s /\ vals s' = vals s /\ forms s' = forms s /\ fmap s' = fmap s /\ solving s' = solving s /\
  edges s' = edges s /\ unatt s' = unatt s /\ unimpl s' = unimpl s /\ fdep s' = fdep s.
Proof.
  induction l as [|i l IH]; intros s; cbn [prompt_all]; [repeat split|].
  destruct (ans i); [|cbn; repeat split].
  match goal with |- context[prompt_all ans l ?s1] => destruct (IH s1) as (A1 & A2 & A3 & A4 & A5 & A6 & A7 & A8 & A9) end.
  cbn in *. repeat split; assumption.
Qed.

Lemma prompt_all_ext l : forall s,
  Inv C false [] s -> NoDup l -> (forall i, In i l -> In i (map fst (unmet (idep s))) /\ ~ In i (met (idep s))) ->
  ext s (prompt_all ans l s).
Proof.
  induction l as [|i l IH]; intros s HI ND Hl; cbn [prompt_all]; [apply ext_refl|].
  inversion ND as [|? ? Hni ND']; subst.
  destruct (ans i) as [v|] eqn:Ea; [|unfold ext; cbn; repeat split; auto using ssub_refl, sub_refl].
  destruct (Hl i (or_introl eq_refl)) as [Hk Hnm].
  destruct (key_has_reg _ _ (i_iwf _ _ _ _ HI) Hk) as [f0 Hf0].
  assert (Habs : alookup i (inp s) = None).
  { destruct (i_iwait _ _ _ _ HI i f0 Hf0) as [X|[X _]]; [contradiction|exact X]. }
  match goal with |- ext s (prompt_all ans l ?s1) => set (s1' := s1) end.
  assert (H1 : ext s s1') by (unfold ext, s1'; cbn; repeat split; auto using ssub_refl, sub_refl, sub_aset_new).
  apply (ext_trans _ s1' _ H1). apply IH; [|exact ND'|].
  - pose proof (Inv_prompt_all C ans [i] s HI) as X. cbn [prompt_all] in X. rewrite Ea in X. apply X.
    + constructor; [tauto|constructor].
    + intros j [<-|[]]. auto.
  - unfold s1'. cbn. intros j Hj. destruct (Hl j (or_intror Hj)) as [Hk' Hm']. split; [exact Hk'|].
    intros X. apply in_app_or in X as [X|[<-|[]]]; [exact (Hm' X)|exact (Hni Hj)].
Qed.


(** forms and the scheduled set only grow *)
Definition grows (s s':state) : Prop := ssub (forms s) (forms s') /\ ssub (solving s) (solving s').
Lemma grows_refl s : grows s s.  Proof. split; apply ssub_refl. Qed.
Lemma grows_trans a b c : grows a b -> grows b c -> grows a c.
Proof. intros [A1 A2] [B1 B2]. split; eauto using ssub_trans. Qed.

Lemma add_form_grows F io s s' : add_form C rank F io s = inl s' -> grows s s'.
Proof.
  intros H. destruct (add_form_spec C rank ans _ _ _ _ H) as (fi & _ & _ & _ & _ & _ & _ & _ & _ & _ & _ & Hrest).
  destruct io.
  - destruct Hrest as (E1 & _ & _ & E2). split; [rewrite E1|rewrite E2]; apply ssub_refl.
  - destruct Hrest as (Hf & _ & _ & Hs). split; intros x Hx; [apply Hf|apply Hs]; auto.
Qed.

Lemma attempt_grows fuel : forall f s s', attempt_field C rank fuel f s = inl s' -> grows s s'.
Proof.
  induction fuel as [|n IH]; intros f s s' H; [discriminate|].
  cbn [attempt_field] in H.
  assert (Hs0 : grows s (log (EvAttempt f) s)) by (split; cbn; apply ssub_refl).
  set (s0 := log (EvAttempt f) s) in *. clearbody s0.
  apply (grows_trans _ _ _ Hs0). clear Hs0.
  destruct (run (c_body C f) (specs s0) (inp s0) (vals s0)) as [v|d|i|i|i| |c] eqn:Er; try discriminate;
    try (inversion H; subst s'; split; cbn; apply ssub_refl).
  - match type of H with match ?r with _ => _ end = _ => destruct r as [s3|e] eqn:Es3; [|discriminate] end.
    inversion H; subst s'; clear H.
    assert (H3 : grows s0 s3).
    { destruct (mem d (solving s0)); [inversion Es3; subst; apply grows_refl|].
      match type of Es3 with match ?r1 with _ => _ end = _ => destruct r1 as [s1|e] eqn:Es1; [|discriminate] end.
      destruct (mem d (fmap s1)); [|discriminate].
      assert (H1 : grows s0 s1).
      { destruct (mem d (fmap s0)); [inversion Es1; subst; apply grows_refl|]. eapply add_form_grows; eassumption. }
      destruct (mem d (solving s1)); [inversion Es3; subst s3; exact H1|]. inversion Es3; subst s3; clear Es3.
      destruct H1 as [A B]. split; unfold add_unattempted; cbn; [exact A|].
      intros x Hx. apply add_names_in. right. auto. }
    destruct H3 as [A B]. split; cbn; assumption.
  - destruct (add_form C rank (c_form_of_input C i) true s0) as [s1|e] eqn:Es1; [|discriminate].
    destruct (mem i (specs s1)); [|discriminate].
    apply (grows_trans _ s1); [eapply add_form_grows; eassumption|]. eapply IH; eassumption.
Qed.

Theorem main_loop_grows fuel s s' : main_loop C rank fuel ans s = inl s' -> grows s s'.
Proof.
  intros H.
  refine (proj1 (main_loop_P C rank ans (fun _ x => grows s x) (fun x => grows s x) _ _ _ _ _ _ _ fuel s s' (grows_refl s) H)).
  - auto.
  - intros fu f pend s0 s1 A Ha. apply (grows_trans _ s0); [exact A|eapply attempt_grows; eassumption].
  - intros s0 q f A _. exact A.
  - intros s0 ws t' A _. exact A.
  - intros s0 A _. destruct (prompt_all_same (sort_rank rank (unmet_dependencies (idep s0))) s0) as (_ & _ & A3 & _ & A5 & _).
    destruct A as [A1 A2]. split; [rewrite A3|rewrite A5]; assumption.
  - auto.
  - intros s0 ws t' A _. exact A.
Qed.

Definition P2 (pend:list name) (s:state) : Prop := Inv C true pend s /\ Inv2 s.
Definition Q2 (s:state) : Prop := Inv C false [] s /\ Inv2 s.

Theorem main_loop_Inv2 fuel s s' : cat_wf ->
  P2 [] s -> main_loop C rank fuel ans s = inl s' -> P2 [] s' /\ loop_cond s' = false.
Proof.
  intros Hwf. apply (main_loop_P C rank ans P2 Q2); unfold P2, Q2.
  - intros pend pend' s0 Hp [A B]. split; [eapply Inv_perm; eassumption|exact B].
  - intros fu f pend s0 s1 [A B] H. split; [eapply Inv_attempt; eassumption|eapply Inv2_attempt; eassumption].
  - intros s0 q f [A B] Hu. split; [apply Inv_pop; assumption|]. destruct B; constructor; assumption.
  - intros s0 ws t' [A B] Hd. split; [apply Inv_fdrain; assumption|]. destruct B; constructor; assumption.
  - intros s0 [A B] Hr. split; [apply Inv_prompt; assumption|].
    pose proof (i_iwf _ _ _ _ A) as [ND _]. pose proof (i_strict _ _ _ _ A eq_refl) as Hm.
    set (l := sort_rank rank (unmet_dependencies (idep s0))).
    destruct (prompt_all_same l s0) as (A1 & A2 & A3 & A4 & A5 & A6 & _).
    apply (Inv2_ext_same s0); auto.
    apply prompt_all_ext.
    + apply Inv_noprompt. exact A.
    + apply (Permutation_NoDup (Permutation_sym (sort_rank_perm rank _))). exact ND.
    + intros i Hi. apply sort_rank_in in Hi. split; [exact Hi|]. rewrite Hm. tauto.
  - intros s0 [A B] Hr. split; [apply Inv_noprompt; assumption|exact B].
  - intros s0 ws t' [A B] Hd. split; [apply Inv_idrain; assumption|]. destruct B; constructor; assumption.
Qed.


(** ** the start state *)
Lemma Inv2_init I hp : Inv2 (init_state I hp).
Proof. constructor; cbn; intros; contradiction. Qed.

Lemma add_forms_Inv2 l : cat_wf -> (forall F, In F l -> In F R) -> forall s s',
  Inv2 s -> add_forms C rank l s = inl s' -> Inv2 s' /\ (forall F, In F l -> In F (forms s')) /\ grows s s'.
Proof.
  intros Hwf. induction l as [|F l IH]; intros Hl s s' HJ H; cbn [add_forms] in H.
  - inversion H; subst. split; [exact HJ|]. split; [intros F []|apply grows_refl].
  - destruct (add_form C rank F false s) as [s1|e] eqn:E; [|discriminate].
    destruct (IH (fun F0 H0 => Hl F0 (or_intror H0)) s1 s') as (A & B & D); [|exact H|].
    + eapply Inv2_add_form_req; eauto. apply Hl. left. reflexivity.
    + pose proof (add_form_grows _ _ _ _ E) as G.
      split; [exact A|]. split; [|eapply grows_trans; eassumption].
      intros F0 [<-|HF0]; [|auto]. apply (proj1 D).
      destruct (add_form_spec C rank ans _ _ _ _ E) as (fi & _ & _ & _ & _ & _ & _ & _ & _ & _ & _ & Hf & _).
      apply Hf. left. reflexivity.
Qed.

Lemma start_Inv2 I hp s0 s1 : cat_wf ->
  add_forms C rank R (init_state I hp) = inl s0 -> add_fields rank FN s0 = inl s1 ->
  Inv2 (start_state FN s1) /\ (forall F, In F R -> In F (forms (start_state FN s1))) /\
  (forall f, In f FN -> In f (solving (start_state FN s1))).
Proof.
  intros Hwf E0 E1.
  destruct (add_forms_Inv2 R Hwf (fun F H => H) _ _ (Inv2_init I hp) E0) as (HJ & HR & _).
  destruct (add_fields_spec rank ans _ _ _ E1) as (E & Hin & Hfm). rewrite E. unfold start_state, with_unatt. cbn.
  split; [|split; [exact HR|intros f Hf; apply add_names_in; auto]].
  destruct HJ. constructor; cbn.
  - intros f Hf. apply add_names_in in Hf as [Hf|Hf]; [apply de_fld; exact Hf|auto].
  - assumption.
  - intros g d Hgd. apply add_names_in. right. eauto.
  - intros g d Hgd. apply (j_edge_sem0 g d Hgd).
  - intros F fi f HF Hc Hfi. apply add_names_in. right. eauto.
  - intros f Hf. apply add_names_in in Hf as [Hf|Hf]; auto.
  - assumption.
Qed.

(** ** C04 — the demand closure, computed against the solution itself *)
Inductive Dem (s:state) : name -> Prop :=
| dm_req F fi f : In F R -> c_form C F = Some fi -> In f (f_required fi) -> Dem s f
| dm_fld f : In f FN -> Dem s f
| dm_read g d : Dem s g -> In d (sreads s g) -> Dem s d
| dm_form g d fi f : Dem s g -> In d (sreads s g) -> c_form C (c_form_of_line C d) = Some fi ->
                     In f (f_required fi) -> Dem s f.

Lemma DemE_Dem s : Inv2 s -> forall f, DemE (edges s) f -> Dem s f.
Proof.
  intros HJ f H. induction H.
  - eapply dm_req; eassumption.
  - apply dm_fld; assumption.
  - eapply dm_read; [eassumption|]. apply (j_edge_sem _ HJ). assumption.
  - eapply dm_form; [eassumption| |eassumption|assumption]. apply (j_edge_sem _ HJ). assumption.
Qed.

Theorem solution_is_demand_closure fuel I hp s : cat_wf ->
  solve C rank fuel R FN I hp ans = inl s -> solved s = true ->
  (forall f, (exists v, alookup f (vals s) = Some v) <-> Dem s f) /\
  (forall F, In F (forms s) <-> In F R \/ exists g d, Dem s g /\ In d (sreads s g) /\ c_form_of_line C d = F).
Proof.
  intros Hwf H Hs.
  destruct (solve_prefix C rank ans _ _ _ _ _ _ H) as (s0 & s1 & E0 & E1 & Hm).
  destruct (start_Inv2 I hp s0 s1 Hwf E0 E1) as (HJ0 & HR0 & HFN0).
  pose proof (start_Inv C rank ans R FN I hp s0 s1 E0 E1) as HI0.
  destruct (main_loop_Inv2 fuel _ _ Hwf (conj HI0 HJ0) Hm) as [[HI HJ] _].
  destruct (main_loop_grows _ _ _ Hm) as [Gf Gs].
  destruct (no_silent_success C rank ans _ _ _ _ _ _ H Hs) as (_ & _ & _ & _ & Hval).
  assert (Hdem_sol : forall f, Dem s f -> In f (solving s)).
  { intros f Hd. induction Hd as [F fi f HF Hc Hin|f Hf|g d Hg IHg Hd|g d fi f Hg IHg Hd Hc Hin].
    - apply (j_forms_req _ HJ F fi f); auto.
    - auto.
    - destruct (Hval g IHg) as (v & Hv & Hr).
      destruct (val_reads_present _ _ _ _ _ d Hr Hd) as [w Hw]. apply (i_vals_sol _ _ _ _ HI d w Hw).
    - destruct (Hval g IHg) as (v & Hv & Hr).
      destruct (val_reads_present _ _ _ _ _ d Hr Hd) as [w Hw].
      pose proof (i_vals_sol _ _ _ _ HI d w Hw) as Hds.
      apply (j_forms_req _ HJ (c_form_of_line C d) fi f); auto.
      apply (j_fmap_form _ HJ). apply (j_sol_fmap _ HJ). exact Hds. }
  split.
  - intros f. split.
    + intros [v Hv]. apply (DemE_Dem s HJ). apply (j_dem _ HJ). apply (i_vals_sol _ _ _ _ HI f v Hv).
    + intros Hd. destruct (Hval f (Hdem_sol f Hd)) as (v & Hv & _). eauto.
  - intros F. split.
    + intros HF. destruct (j_forms _ HJ F HF) as [X|(g & d & X1 & X2 & X3)]; [left; exact X|right].
      exists g, d. split; [apply (DemE_Dem s HJ); exact X1|]. split; [apply (j_edge_sem _ HJ); exact X2|exact X3].
    + intros [HF|(g & d & X1 & X2 & <-)]; [auto|].
      destruct (Hval g (Hdem_sol g X1)) as (v & Hv & Hr).
      destruct (val_reads_present _ _ _ _ _ d Hr X2) as [w Hw].
      apply (j_fmap_form _ HJ). apply (j_sol_fmap _ HJ). apply (i_vals_sol _ _ _ _ HI d w Hw).
Qed.

(* for a run that did not solve: nothing outside the demand closure was ever stored *)
Theorem partial_solution_within_closure fuel I hp s : cat_wf ->
  solve C rank fuel R FN I hp ans = inl s ->
  forall f v, alookup f (vals s) = Some v -> Dem s f.
Proof.
  intros Hwf H f v Hv.
  destruct (solve_prefix C rank ans _ _ _ _ _ _ H) as (s0 & s1 & E0 & E1 & Hm).
  destruct (start_Inv2 I hp s0 s1 Hwf E0 E1) as (HJ0 & HR0 & HFN0).
  pose proof (start_Inv C rank ans R FN I hp s0 s1 E0 E1) as HI0.
  destruct (main_loop_Inv2 fuel _ _ Hwf (conj HI0 HJ0) Hm) as [[HI HJ] _].
  apply (DemE_Dem s HJ). apply (j_dem _ HJ). apply (i_vals_sol _ _ _ _ HI f v Hv).
Qed.

End Dem.
