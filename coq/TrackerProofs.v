(** C06(1) — DependencyTracker: for EVERY history of add_unmet / meet / generator steps, the dict-of-lists
    representation refines a multiset of registrations [regs]; a waiter is yielded only under the met
    dependency at the head of [_met], exactly one registration is consumed per yield, and a complete drain
    leaves no registration under a met dependency. *)
From Coq Require Import ZArith NArith List Bool Lia Permutation.
From HV Require Import Solver.
Import ListNotations.

Definition regs_of (u:list (name * list name)) : list (name * name) :=
  flat_map (fun dl => map (pair (fst dl)) (snd dl)) u.
Definition regs (t:tracker) : list (name * name) := regs_of (unmet t).

Definition twf (t:tracker) : Prop :=
  NoDup (map fst (unmet t)) /\ forall d l, In (d, l) (unmet t) -> l <> [].

Lemma regs_of_app a b : regs_of (a ++ b) = regs_of a ++ regs_of b.
Proof. unfold regs_of. apply flat_map_app. Qed.

Lemma alookup_none_notin {A} d (u:list (name * A)) : alookup d u = None -> ~ In d (map fst u).
Proof.
  induction u as [|[k a] u IH]; cbn; intros H; [tauto|].
  destruct (N.eqb_spec d k); [discriminate|]. intros [E|E]; [congruence|]. exact (IH H E).
Qed.

Lemma alookup_notin_none {A} d (u:list (name * A)) : ~ In d (map fst u) -> alookup d u = None.
Proof.
  induction u as [|[k a] u IH]; cbn; intros H; [reflexivity|].
  destruct (N.eqb_spec d k); [subst; tauto|]. apply IH. tauto.
Qed.

Lemma alookup_in {A} d (a:A) u : alookup d u = Some a -> In (d, a) u.
Proof.
  induction u as [|[k b] u IH]; cbn; [discriminate|].
  destruct (N.eqb_spec d k); intros H; [inversion H; subst; auto|auto].
Qed.

Lemma in_alookup_nodup {A} d (a:A) u : NoDup (map fst u) -> In (d, a) u -> alookup d u = Some a.
Proof.
  induction u as [|[k b] u IH]; cbn; intros ND H; [tauto|].
  inversion ND as [|? ? Hn ND']; subst.
  destruct H as [H|H].
  - inversion H; subst. rewrite N.eqb_refl. reflexivity.
  - destruct (N.eqb_spec d k); [subst; exfalso; apply Hn; apply (in_map fst) in H; exact H|]. auto.
Qed.

Lemma alookup_split {A} d (l:A) u :
  alookup d u = Some l ->
  exists pre post, u = pre ++ (d, l) :: post /\ ~ In d (map fst pre) /\
    (forall l', aset d l' u = pre ++ (d, l') :: post) /\ aremove d u = pre ++ post.
Proof.
  induction u as [|[k a] u IH]; cbn; [discriminate|].
  destruct (N.eqb_spec d k) as [E|E]; intros H.
  - inversion H; subst. exists [], u. cbn. repeat split; auto.
  - destruct (IH H) as (pre & post & -> & Hn & Hs & Hr).
    exists ((k, a) :: pre), post. cbn. repeat split.
    + intros [X|X]; [congruence|tauto].
    + intros l'. rewrite Hs. reflexivity.
    + rewrite Hr. reflexivity.
Qed.

Lemma mem_in x l : mem x l = true <-> In x l.
Proof.
  unfold mem. rewrite existsb_exists. split.
  - intros (y & Hy & E). apply N.eqb_eq in E. subst. exact Hy.
  - intros H. exists x. split; [exact H|apply N.eqb_refl].
Qed.

Lemma mem_false x l : mem x l = false <-> ~ In x l.
Proof. rewrite <- mem_in. destruct (mem x l); split; congruence. Qed.

Lemma perm_snoc_mid {A} (a x:list A) (y:A) (b:list A) :
  Permutation (a ++ (x ++ [y]) ++ b) (y :: a ++ x ++ b).
Proof.
  rewrite <- app_assoc. cbn [app]. symmetry.
  rewrite (app_assoc a x (y :: b)). rewrite (app_assoc a x b).
  apply Permutation_cons_app. reflexivity.
Qed.

(** ** add_unmet *)
Lemma add_unmet_regs d w t : Permutation (regs (add_unmet d w t)) ((d, w) :: regs t).
Proof.
  unfold add_unmet, regs. destruct (alookup d (unmet t)) as [l|] eqn:E; cbn [unmet].
  - destruct (alookup_split d l (unmet t) E) as (pre & post & Hu & _ & Hs & _).
    rewrite Hs, Hu, !regs_of_app. cbn [regs_of flat_map fst snd].
    rewrite map_app. cbn [map]. apply perm_snoc_mid.
  - rewrite regs_of_app. cbn. try rewrite app_nil_r. symmetry. apply Permutation_cons_append.
Qed.

Lemma add_unmet_wf d w t : twf t -> twf (add_unmet d w t).
Proof.
  intros [ND NE]. unfold add_unmet. destruct (alookup d (unmet t)) as [l|] eqn:E; split; cbn [unmet].
  - destruct (alookup_split d l (unmet t) E) as (pre & post & Hu & _ & Hs & _).
    rewrite Hs. rewrite Hu in ND. rewrite map_app in *. exact ND.
  - destruct (alookup_split d l (unmet t) E) as (pre & post & Hu & _ & Hs & _).
    rewrite Hs. intros d' l' Hin. apply in_app_or in Hin as [Hin|[Hin|Hin]].
    + apply (NE d' l'). rewrite Hu. apply in_or_app. auto.
    + inversion Hin; subst. destruct l; discriminate.
    + apply (NE d' l'). rewrite Hu. apply in_or_app. right. right. exact Hin.
  - rewrite map_app. cbn. apply alookup_none_notin in E.
    apply (Permutation_NoDup (l:=d :: map fst (unmet t))); [apply Permutation_cons_append|].
    constructor; auto.
  - intros d' l' Hin. apply in_app_or in Hin as [Hin|[Hin|[]]]; [eauto|inversion Hin; discriminate].
Qed.

Lemma add_unmet_met d w t : met (add_unmet d w t) = met t.
Proof. unfold add_unmet. destruct (alookup d (unmet t)); reflexivity. Qed.

(** ** one generator step *)
Lemma regs_key_in d f u : In (d, f) (regs_of u) -> In d (map fst u).
Proof.
  unfold regs_of. rewrite in_flat_map. intros ([k l] & Hin & Hm). cbn in Hm.
  apply in_map_iff in Hm as (x & E & _). inversion E; subst. apply (in_map fst) in Hin. exact Hin.
Qed.

Lemma drain_step_yield t w t' :
  twf t -> drain_step t = Some (Some w, t') ->
  exists m ms, met t = m :: ms /\ Permutation (regs t) ((m, w) :: regs t') /\ twf t' /\
    ((met t' = m :: ms /\ In m (map fst (unmet t'))) \/ (met t' = ms /\ ~ In m (map fst (unmet t')))).
Proof.
  intros [ND NE]. unfold drain_step.
  destruct (met t) as [|m ms] eqn:Em; [discriminate|].
  destruct (alookup m (unmet t)) as [l|] eqn:El; [|discriminate].
  destruct (alookup_split m l (unmet t) El) as (pre & post & Hu & Hpre & Hs & Hr).
  destruct (rev l) as [|w0 rl] eqn:Er; [discriminate|].
  assert (Hl : l = rev rl ++ [w0]) by (rewrite <- (rev_involutive l), Er; reflexivity).
  assert (Hperm : forall l', Permutation (regs_of (pre ++ (m, l' ++ [w0]) :: post)) ((m, w0) :: regs_of (pre ++ (m, l') :: post))).
  { intros l'. rewrite !regs_of_app. cbn [regs_of flat_map fst snd]. rewrite map_app. cbn [map].
    apply perm_snoc_mid. }
  rewrite Hu in ND. rewrite map_app in ND. cbn [map fst] in ND.
  destruct rl as [|w1 rl'].
  - intros H. inversion H; subst w0 t'. clear H. exists m, ms. split; [reflexivity|].
    unfold regs. cbn [unmet met]. rewrite Hr. cbn [rev app] in Hl. subst l. split; [|split].
    + rewrite Hu. rewrite (Hperm []). apply perm_skip. rewrite !regs_of_app. cbn. reflexivity.
    + unfold twf; cbn [unmet]. split; [rewrite map_app; apply NoDup_remove_1 in ND; exact ND|].
      intros d l Hin. apply (NE d l). rewrite Hu. apply in_app_or in Hin as [Hin|Hin]; apply in_or_app; cbn; auto.
    + right. split; [reflexivity|]. rewrite map_app. apply NoDup_remove_2 in ND. exact ND.
  - intros H. inversion H; subst w0 t'. clear H. exists m, ms. split; [reflexivity|].
    unfold regs. cbn [unmet met]. rewrite Hs. split; [|split].
    + rewrite Hu, Hl. apply Hperm.
    + unfold twf; cbn [unmet]. split; [rewrite map_app; cbn [map fst]; exact ND|].
      intros d l0 Hin. apply in_app_or in Hin as [Hin|[Hin|Hin]].
      * apply (NE d l0). rewrite Hu. apply in_or_app. auto.
      * inversion Hin; subst. cbn [rev]. intros Hnil. apply app_eq_nil in Hnil as [_ Hnil]. discriminate.
      * apply (NE d l0). rewrite Hu. apply in_or_app. right. right. exact Hin.
    + left. split; [reflexivity|]. rewrite map_app. apply in_or_app. right. left. reflexivity.
Qed.

Lemma drain_step_skip t t' :
  twf t -> drain_step t = Some (None, t') ->
  exists m, met t = m :: met t' /\ unmet t' = unmet t /\ ~ In m (map fst (unmet t)).
Proof.
  intros [ND NE]. unfold drain_step.
  destruct (met t) as [|m ms] eqn:Em; [discriminate|].
  destruct (alookup m (unmet t)) as [l|] eqn:El.
  - destruct (rev l) as [|w0 rl] eqn:Er.
    + exfalso. apply alookup_in in El. apply (NE m l El).
      rewrite <- (rev_involutive l), Er. reflexivity.
    + destruct rl; discriminate.
  - intros H. inversion H; subst. exists m. cbn. repeat split. apply alookup_none_notin. exact El.
Qed.

Lemma drain_step_none t : drain_step t = None <-> met t = [].
Proof.
  unfold drain_step. destruct (met t) as [|m ms]; [tauto|]. split; [|discriminate].
  destruct (alookup m (unmet t)) as [l|]; [|discriminate].
  destruct (rev l) as [|w rl]; [discriminate|]. destruct rl; discriminate.
Qed.

(** ** complete drain *)
Definition measure (t:tracker) : nat := length (met t) + length (regs t).

Lemma drain_fuel_measure t : drain_fuel t = S (measure t).
Proof.
  unfold drain_fuel, measure, regs. f_equal. f_equal.
  induction (unmet t) as [|[d l] u IH]; cbn; [reflexivity|].
  rewrite app_length, map_length. unfold regs_of in IH. rewrite <- IH. reflexivity.
Qed.

(* What a (partial or complete) drain does: [ys] are the (dependency, waiter) pairs yielded, in order *)
Lemma drain_all_spec fuel : forall t acc ws t',
  twf t -> drain_all fuel t acc = (ws, t') ->
  exists ys, ws = acc ++ map snd ys /\ Permutation (regs t) (ys ++ regs t') /\ twf t' /\
    (forall d f, In (d, f) ys -> In d (met t)) /\
    (forall m, In m (met t) -> ~ In m (met t') -> ~ In m (map fst (unmet t'))) /\
    (forall m, In m (met t') -> In m (met t)) /\
    (measure t < fuel -> met t' = []).
Proof.
  induction fuel as [|n IH]; intros t acc ws t' Hwf H; cbn [drain_all] in H.
  - inversion H; subst. exists []. cbn. rewrite app_nil_r.
    refine (conj eq_refl (conj (Permutation_refl _) (conj Hwf (conj _ (conj _ (conj _ _)))))); try tauto; lia.
  - destruct (drain_step t) as [[[w|] t1]|] eqn:Es.
    + destruct (drain_step_yield t w t1 Hwf Es) as (m & ms & Hm & Hp & Hwf1 & Hcase).
      destruct (IH t1 (acc ++ [w]) ws t' Hwf1 H) as (ys & Hws & Hp1 & Hwf' & Hy & Hgone & Hsub & Hdone).
      exists ((m, w) :: ys). refine (conj _ (conj _ (conj Hwf' (conj _ (conj _ (conj _ _)))))).
      * rewrite Hws, <- app_assoc. reflexivity.
      * rewrite Hp. cbn [app]. apply perm_skip. exact Hp1.
      * intros d f [E|Hin]; [inversion E; subst; rewrite Hm; left; reflexivity|].
        specialize (Hy d f Hin). rewrite Hm. destruct Hcase as [[E _]|[E _]]; rewrite E in Hy; [exact Hy|right; exact Hy].
      * intros m0 Hin Hnot. rewrite Hm in Hin.
        destruct Hcase as [[Hm1 _]|[Hm1 Hk]].
        -- apply Hgone; [rewrite Hm1; exact Hin|exact Hnot].
        -- destruct Hin as [->|Hin].
           ++ (* m was popped with its key deleted; keys never come back *)
              intros Hk'. apply Hk.
              assert (Hsubkeys : forall k, In k (map fst (unmet t')) -> In k (map fst (unmet t1))).
              { intros k Hkin. apply in_map_iff in Hkin as ([k0 l0] & <- & Hin0). cbn.
                destruct Hwf' as [_ NE']. pose proof (NE' k0 l0 Hin0) as Hne.
                destruct l0 as [|f0 l0]; [congruence|].
                apply (regs_key_in k0 f0). unfold regs in Hp1. rewrite Hp1. apply in_or_app. right.
                unfold regs_of. rewrite in_flat_map. exists (k0, f0 :: l0). split; [exact Hin0|]. cbn. auto. }
              apply Hsubkeys. exact Hk'.
           ++ apply Hgone; [rewrite Hm1; exact Hin|exact Hnot].
      * intros m0 Hin. specialize (Hsub m0 Hin). rewrite Hm.
        destruct Hcase as [[E _]|[E _]]; rewrite E in Hsub; [exact Hsub|right; exact Hsub].
      * intros Hlt. apply Hdone. unfold measure in *. apply Permutation_length in Hp. cbn in Hp.
        destruct Hcase as [[E _]|[E _]]; rewrite E; rewrite Hm in Hlt; cbn in *; lia.
    + destruct (drain_step_skip t t1 Hwf Es) as (m & Hm & Hu & Hk).
      assert (Hwf1 : twf t1) by (unfold twf in *; rewrite Hu; exact Hwf).
      destruct (IH t1 acc ws t' Hwf1 H) as (ys & Hws & Hp1 & Hwf' & Hy & Hgone & Hsub & Hdone).
      exists ys. refine (conj Hws (conj _ (conj Hwf' (conj _ (conj _ (conj _ _)))))).
      * unfold regs in *. rewrite <- Hu. exact Hp1.
      * intros d f Hin. rewrite Hm. right. eauto.
      * intros m0 Hin Hnot. rewrite Hm in Hin. destruct Hin as [<-|Hin]; [|auto].
        intros Hk'. apply Hk. rewrite <- Hu.
        apply in_map_iff in Hk' as ([k0 l0] & E & Hin0). cbn in E. subst k0.
        destruct Hwf' as [_ NE']. pose proof (NE' m l0 Hin0) as Hne.
        destruct l0 as [|f0 l0]; [congruence|].
        apply (regs_key_in m f0). unfold regs in Hp1. rewrite Hp1. apply in_or_app. right.
        unfold regs_of. rewrite in_flat_map. exists (m, f0 :: l0). split; [exact Hin0|]. cbn. auto.
      * intros m0 Hin. rewrite Hm. right. auto.
      * intros Hlt. apply Hdone. unfold measure, regs in *. rewrite Hu. rewrite Hm in Hlt. cbn in Hlt. lia.
    + inversion H; subst. apply drain_step_none in Es. exists []. cbn. rewrite app_nil_r.
      refine (conj eq_refl (conj (Permutation_refl _) (conj Hwf (conj _ (conj _ (conj _ _)))))); tauto.
Qed.

(** The three statements of the property, for a complete drain. *)
Theorem drain_complete t ws t' :
  twf t -> drain t = (ws, t') ->
  met t' = [] /\ twf t' /\
  exists ys, ws = map snd ys
    /\ Permutation (regs t) (ys ++ regs t')                    (* exactly once: each yield consumes one registration *)
    /\ (forall d f, In (d, f) ys -> In d (met t))              (* never before the dependency is met *)
    /\ (forall d f, In (d, f) (regs t') -> ~ In d (met t)).    (* never lost: nothing under a met dependency remains *)
Proof.
  intros Hwf H. unfold drain in H. rewrite drain_fuel_measure in H.
  destruct (drain_all_spec _ t [] ws t' Hwf H) as (ys & Hws & Hp & Hwf' & Hy & Hgone & Hsub & Hdone).
  assert (Hm : met t' = []) by (apply Hdone; lia).
  repeat split; try apply Hwf'; auto.
  exists ys. repeat split; auto.
  intros d f Hin Hmet. apply (Hgone d Hmet); [rewrite Hm; tauto|].
  apply (regs_key_in d f). exact Hin.
Qed.

(** Every history: the representation invariant holds after any sequence of public operations. *)
Inductive top := OpAdd (d w:name) | OpMeet (d:name) | OpStep.
Definition apply_op (t:tracker) (o:top) : tracker :=
  match o with
  | OpAdd d w => add_unmet d w t
  | OpMeet d => meet d t
  | OpStep => match drain_step t with Some (_, t') => t' | None => t end
  end.

Theorem tracker_history_wf ops : twf (fold_left apply_op ops tr_empty).
Proof.
  assert (G : forall t, twf t -> twf (fold_left apply_op ops t)).
  { induction ops as [|o ops IH]; intros t Hwf; cbn [fold_left]; [exact Hwf|].
    apply IH. destruct o; cbn [apply_op].
    - apply add_unmet_wf. exact Hwf.
    - exact Hwf.
    - destruct (drain_step t) as [[[w|] t1]|] eqn:Es; [| |exact Hwf].
      + destruct (drain_step_yield t w t1 Hwf Es) as (? & ? & ? & ? & H & ?). exact H.
      + destruct (drain_step_skip t t1 Hwf Es) as (m & Hm & Hu & Hk). unfold twf in *. rewrite Hu. exact Hwf. }
  apply G. split; cbn; [constructor|tauto].
Qed.
