(** Arithmetic reading of money lines, richer than [Arith]: reads of lines AND of money inputs, negation, conditionals on
    numeric comparisons at any depth, and - at the top of a line - blank (None) arms, not_implemented() arms and conditions
    that are not arithmetic (kept opaque).  [XexpProofs.xtop_sound] ties it to the interpreter of [Forms] for every store. *)
From Coq Require Import ZArith QArith Qminmax List String Bool.
From HV Require Import Forms.
Import ListNotations.
Open Scope string_scope.

Inductive xexp :=
| XConst (q:Q)
| XLine (n:string)                  (* v['n'] *)
| XInp (n:string)                   (* i['n'] *)
| XAdd (a b:xexp) | XSub (a b:xexp)
| XScale (k:Q) (a:xexp)             (* a * k, k a literal *)
| XNeg (a:xexp)
| XMax (a b:xexp) | XMin (a b:xexp)
| XIf (op:cop) (a b t e:xexp).      (* t if a op b else e, op one of > >= < <= *)

Fixpoint xchain (acc:xexp) (l:list xexp) : xexp := match l with [] => acc | a :: t => xchain (XAdd acc a) t end.

Definition is_ord (op:cop) : bool := match op with CGt | CGe | CLt | CLe => true | _ => false end.
Definition lit_name (parts:list npart) : option string :=
  match parts with [NLit s] => Some s | [NExp (EConst (PStr s))] => Some s | _ => None end.
Definition num_lit (e:expr) : option Q := match e with EConst (PNum q) => Some q | _ => None end.


(* sums: sum([a, b, ...]) and sum([v[f'<pre>{x}<post>'] for x in <constant list>]) become a chain of additions *)
Definition item_str (v:pv) : option string := match v with PStr s => Some s | PInt z => Some (str_of_Z z) | _ => None end.
Fixpoint name_with (x s:string) (parts:list npart) : option string :=
  match parts with
  | [] => Some ""
  | NLit p :: t => option_map (append p) (name_with x s t)
  | NExp (EVar y) :: t => if String.eqb x y then option_map (append s) (name_with x s t) else None
  | _ => None
  end.
Fixpoint omap {A B} (f:A -> option B) (l:list A) : option (list B) :=
  match l with [] => Some [] | a :: t => match f a, omap f t with Some b, Some r => Some (b :: r) | _, _ => None end end.
Definition comp_names (x:string) (parts:list npart) (items:list pv) : option (list xexp) :=
  omap (fun it => match item_str it with Some s => option_map XLine (name_with x s parts) | None => None end) items.

Fixpoint xcomp (fuel:nat) (e:expr) : option xexp :=
  match fuel with
  | O => None
  | S n =>
    match e with
    | EConst (PNum q) => Some (XConst q)
    | ERead RV name => option_map XLine (lit_name name)
    | ERead RI name => option_map XInp (lit_name name)
    | EBin OAdd a b => match xcomp n a, xcomp n b with Some x, Some y => Some (XAdd x y) | _, _ => None end
    | EBin OSub a b => match xcomp n a, xcomp n b with Some x, Some y => Some (XSub x y) | _, _ => None end
    | EBin OMul a b =>
        match num_lit b with
        | Some k => option_map (XScale k) (xcomp n a)
        | None => match num_lit a with
                  | Some k => option_map (XScale k) (xcomp n b)
                  | None => None
                  end
        end
    | ENeg a => option_map XNeg (xcomp n a)
    | ECall FMax [a; b] => match xcomp n a, xcomp n b with Some x, Some y => Some (XMax x y) | _, _ => None end
    | ECall FMin [a; b] => match xcomp n a, xcomp n b with Some x, Some y => Some (XMin x y) | _, _ => None end
    | ECall FFloat [a] => xcomp n a
    | ECall FSum [EList (e0 :: es)] =>
        match omap (xcomp n) (e0 :: es) with Some (a :: r) => Some (xchain a r) | _ => None end
    | ECall FSum [EComp (ERead RV parts) x (EConst (PList (it0 :: its))) None] =>
        match comp_names x parts (it0 :: its) with Some (a :: r) => Some (xchain a r) | _ => None end
    | EIf (ECmp op a b) t e =>
        if is_ord op then
          match xcomp n a, xcomp n b, xcomp n t, xcomp n e with
          | Some ca, Some cb, Some ct, Some ce => Some (XIf op ca cb ct ce)
          | _, _, _, _ => None
          end
        else None
    | _ => None
    end
  end.

(** top of a line *)
Inductive arm := AVal (x:xexp) | ABlank | AUnimpl.
Inductive tcond := CCmp (op:cop) (a b:xexp) | COpaque.
Inductive top := TPlain (x:xexp) | TCond (c:tcond) (t e:arm).

Definition xarm (e:expr) : option arm :=
  match e with
  | EConst PNone => Some ABlank
  | EUnimpl => Some AUnimpl
  | _ => option_map AVal (xcomp 40 e)
  end.
Definition xcond (e:expr) : tcond :=
  match e with
  | ECmp op a b =>
      if is_ord op then match xcomp 40 a, xcomp 40 b with Some x, Some y => CCmp op x y | _, _ => COpaque end else COpaque
  | _ => COpaque
  end.

Definition xtop (body:list stmt) : option top :=
  match body with
  | [SReturn e] =>
      match xcomp 40 e with
      | Some x => Some (TPlain x)
      | None =>
          match e with
          | EIf c t f => match xarm t, xarm f with Some at_, Some af => Some (TCond (xcond c) at_ af) | _, _ => None end
          | _ => None
          end
      end
  | _ => None
  end.

(** evaluation on a store: [ev] for lines, [ei] for inputs *)
Fixpoint xeval (ev ei:string -> Q) (a:xexp) : Q :=
  match a with
  | XConst q => q
  | XLine n => ev n
  | XInp n => ei n
  | XAdd x y => xeval ev ei x + xeval ev ei y
  | XSub x y => xeval ev ei x - xeval ev ei y
  | XScale k x => xeval ev ei x * k
  | XNeg x => - xeval ev ei x
  | XMax x y => Qmax (xeval ev ei x) (xeval ev ei y)
  | XMin x y => Qmin (xeval ev ei x) (xeval ev ei y)
  | XIf op a b t e => if num_cmp op (xeval ev ei a) (xeval ev ei b) then xeval ev ei t else xeval ev ei e
  end.

Fixpoint xlines (a:xexp) : list string :=
  match a with
  | XConst _ | XInp _ => [] | XLine n => [n]
  | XAdd x y | XSub x y | XMax x y | XMin x y => (xlines x ++ xlines y)%list
  | XScale _ x | XNeg x => xlines x
  | XIf _ a b t e => (xlines a ++ xlines b ++ xlines t ++ xlines e)%list
  end.
Fixpoint xinps (a:xexp) : list string :=
  match a with
  | XConst _ | XLine _ => [] | XInp n => [n]
  | XAdd x y | XSub x y | XMax x y | XMin x y => (xinps x ++ xinps y)%list
  | XScale _ x | XNeg x => xinps x
  | XIf _ a b t e => (xinps a ++ xinps b ++ xinps t ++ xinps e)%list
  end.

(** what a stored value [q] of the line (places [p]) must satisfy *)
Definition armsem (ev ei:string -> Q) (p:Z) (a:arm) (q:Q) : Prop :=
  match a with AVal x => q == qround p (xeval ev ei x) | ABlank => q == 0 | AUnimpl => False end.
Definition cholds (ev ei:string -> Q) (c:tcond) : option bool :=
  match c with CCmp op a b => Some (num_cmp op (xeval ev ei a) (xeval ev ei b)) | COpaque => None end.
Definition tsem (ev ei:string -> Q) (p:Z) (t:top) (q:Q) : Prop :=
  match t with
  | TPlain x => q == qround p (xeval ev ei x)
  | TCond c a b => (cholds ev ei c <> Some false /\ armsem ev ei p a q) \/ (cholds ev ei c <> Some true /\ armsem ev ei p b q)
  end.

Definition arm_lines (a:arm) := match a with AVal x => xlines x | _ => [] end.
Definition arm_inps (a:arm) := match a with AVal x => xinps x | _ => [] end.
Definition top_lines (t:top) : list string :=
  match t with
  | TPlain x => xlines x
  | TCond c a b => ((match c with CCmp _ x y => xlines x ++ xlines y | COpaque => [] end) ++ arm_lines a ++ arm_lines b)%list
  end.
Definition top_inps (t:top) : list string :=
  match t with
  | TPlain x => xinps x
  | TCond c a b => ((match c with CCmp _ x y => xinps x ++ xinps y | COpaque => [] end) ++ arm_inps a ++ arm_inps b)%list
  end.
