(** C09 — a line that consults a gate input first and answers not_implemented() when it is affirmative:
    recognised syntactically, and proved to yield RUnimpl on EVERY store in which the gate input is true. *)
From Coq Require Import ZArith QArith List String Bool Lia.
From HV Require Import Forms Xexp XexpProofs.
Import ListNotations.
Open Scope string_scope.

Definition reads_gate (g:string) (e:expr) : bool :=
  match e with ERead RI [NLit g'] => String.eqb g g' | _ => false end.

(* 1: `s.not_implemented() if i[g] else e` ; 2: `... if i[g] or <anything> else e` ; 3: `if i[g]: self.not_implemented()` as the first statement *)
Definition gate_shape (g:string) (body:list stmt) : nat :=
  match body with
  | [SReturn (EIf c EUnimpl _)] =>
      if reads_gate g c then 1%nat
      else match c with EOr a _ => if reads_gate g a then 2%nat else 0%nat | _ => 0%nat end
  | SIf c [SExpr EUnimpl] [] :: _ =>
      if reads_gate g c then 3%nat
      else match c with EOr a _ => if reads_gate g a then 3%nat else 0%nat | _ => 0%nat end
  | _ => 0%nat
  end.

Lemma reads_gate_eq g e : reads_gate g e = true -> e = ERead RI [NLit g].
Proof.
  unfold reads_gate. destruct e; try discriminate. destruct k; try discriminate.
  destruct name as [|[s|] [|]]; try discriminate. intros H. apply String.eqb_eq in H. subst. reflexivity.
Qed.

Section G.
Context (c:ctx).

Lemma eval_or m a b r : eval c (S m) (EOr a b) r = (x <- eval c m a r ;; if truthy x then RVal x else eval c m b r).
Proof. reflexivity. Qed.
Lemma exec_if_first m cnd t f rest r :
  exec c (S m) (SIf cnd t f :: rest) r =
  (x <- eval c m cnd r ;; sg <- exec c m (if truthy x then t else f) r ;;
   match snd sg with SigNone => exec c m rest (fst sg) | _ => RVal sg end).
Proof. reflexivity. Qed.
Lemma exec_expr_unimpl m r : exec c (S (S m)) [SExpr EUnimpl] r = RUnimpl.
Proof. reflexivity. Qed.

(* the condition is true as soon as the gate is *)
Lemma cond_true g cnd m r :
  (reads_gate g cnd = true \/ exists a b, cnd = EOr a b /\ reads_gate g a = true) ->
  slookup (qualify c g) (x_inps c) = Some (PBool true) ->
  exists x, eval c (S (S (S m))) cnd r = RVal x /\ truthy x = true.
Proof.
  intros [H|(a & b & E & H)] Hg.
  - rewrite (reads_gate_eq _ _ H). exists (PBool true). split; [|reflexivity].
    rewrite eval_read_lit. unfold do_read. rewrite Hg. reflexivity.
  - subst cnd. rewrite (reads_gate_eq _ _ H). exists (PBool true). split; [|reflexivity].
    rewrite eval_or, eval_read_lit. unfold do_read. rewrite Hg. reflexivity.
Qed.

Theorem gate_sound (l:line) g fuel :
  gate_shape g (l_body l) <> 0%nat ->
  slookup (qualify c g) (x_inps c) = Some (PBool true) ->
  (8 <= fuel)%nat ->
  line_value c fuel l = RUnimpl.
Proof.
  intros Hs Hg Hf. unfold line_value.
  destruct fuel as [|[|[|[|[|m]]]]]; try lia.
  unfold gate_shape in Hs.
  destruct (l_body l) as [|s rest]; [contradiction|].
  destruct s as [ | | |cnd tb fb| |re| | | |]; try contradiction.
  - (* SIf first *)
    destruct tb as [|s1 tl]; try contradiction.
    destruct s1 as [ | | | | | |ex| | |]; try contradiction.
    destruct ex; try contradiction. destruct tl; try contradiction. destruct fb; try contradiction.
    assert (Hc : reads_gate g cnd = true \/ exists a b, cnd = EOr a b /\ reads_gate g a = true).
    { destruct (reads_gate g cnd) eqn:R; [left; reflexivity|].
      destruct cnd; try contradiction. destruct (reads_gate g cnd1) eqn:R1; [|contradiction].
      right. exists cnd1, cnd2. auto. }
    destruct (cond_true g cnd (S m) [] Hc Hg) as (x & Ex & Tx).
    rewrite exec_if_first, Ex. cbn [bind]. rewrite Tx. rewrite exec_expr_unimpl. reflexivity.
  - (* SReturn (EIf c EUnimpl _) *)
    destruct re; try contradiction. destruct re2; try contradiction. destruct rest; [|contradiction].
    assert (Hc : reads_gate g re1 = true \/ exists a b, re1 = EOr a b /\ reads_gate g a = true).
    { destruct (reads_gate g re1) eqn:R; [left; reflexivity|].
      destruct re1; try contradiction. destruct (reads_gate g re1_1) eqn:R1; [|contradiction].
      right. exists re1_1, re1_2. auto. }
    destruct (cond_true g re1 m [] Hc Hg) as (x & Ex & Tx).
    rewrite exec_return, eval_if, Ex. cbn [bind]. rewrite Tx, eval_unimpl. reflexivity.
Qed.
End G.
