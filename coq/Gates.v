(** C09 — a line that consults a gate input first and answers not_implemented() when it is affirmative:
    recognised syntactically, and proved to yield RUnimpl on EVERY store in which the gate input is true. *)
From Coq Require Import ZArith QArith List String Bool Lia.
From HV Require Import Forms Xexp XexpProofs.
Import ListNotations.
Open Scope string_scope.

Definition reads_gate (g:string) (e:expr) : bool :=
  match e with ERead RI [NLit g'] => String.eqb g g' | _ => false end.

(* 1: `s.not_implemented() if i[g] else e` ; 2: `... if i[g] or <anything> else e` ; 3: `if i[g]: self.not_implemented()` as the first statement *)
Definition gate_shape (g:string) (body:list stmt) : nat :=
  match body with
  | [SReturn (EIf c EUnimpl _)] =>
      if reads_gate g c then 1%nat
      else match c with EOr a _ => if reads_gate g a then 2%nat else 0%nat | _ => 0%nat end
  | SIf c [SExpr EUnimpl] [] :: _ =>
      if reads_gate g c then 3%nat
      else match c with EOr a _ => if reads_gate g a then 3%nat else 0%nat | _ => 0%nat end
  | _ => 0%nat
  end.

Lemma reads_gate_eq g e : reads_gate g e = true -> e = ERead RI [NLit g].
Proof.
  unfold reads_gate. destruct e; try discriminate. destruct k; try discriminate.
  destruct name as [|[s|] [|]]; try discriminate. intros H. apply String.eqb_eq in H. subst. reflexivity.
Qed.

Section G.
Context (c:ctx).

Lemma eval_or m a b r : eval c (S m) (EOr a b) r = (x <- eval c m a r ;; if truthy x then RVal x else eval c m b r).
Proof. reflexivity. Qed.
Lemma exec_if_first m cnd t f rest r :
  exec c (S m) (SIf cnd t f :: rest) r =
  (x <- eval c m cnd r ;; sg <- exec c m (if truthy x then t else f) r ;;
   match snd sg with SigNone => exec c m rest (fst sg) | _ => RVal sg end).
Proof. reflexivity. Qed.
Lemma exec_expr_unimpl m r : exec c (S (S m)) [SExpr EUnimpl] r = RUnimpl.
Proof. reflexivity. Qed.

(* the condition is true as soon as the gate is *)
Lemma cond_true g cnd m r :
  (reads_gate g cnd = true \/ exists a b, cnd = EOr a b /\ reads_gate g a = true) ->
  slookup (qualify c g) (x_inps c) = Some (PBool true) ->
  exists x, eval c (S (S (S m))) cnd r = RVal x /\ truthy x = true.
Proof.
  intros [H|(a & b & E & H)] Hg.
  - rewrite (reads_gate_eq _ _ H). exists (PBool true). split; [|reflexivity].
    rewrite eval_read_lit. unfold do_read. rewrite Hg. reflexivity.
  - subst cnd. rewrite (reads_gate_eq _ _ H). exists (PBool true). split; [|reflexivity].
    rewrite eval_or, eval_read_lit. unfold do_read. rewrite Hg. reflexivity.
Qed.

Theorem gate_sound (l:line) g fuel :
  gate_shape g (l_body l) <> 0%nat ->
  slookup (qualify c g) (x_inps c) = Some (PBool true) ->
  (8 <= fuel)%nat ->
  line_value c fuel l = RUnimpl.
Proof.
  intros Hs Hg Hf. unfold line_value.
  destruct fuel as [|[|[|[|[|m]]]]]; try lia.
  unfold gate_shape in Hs.
  destruct (l_body l) as [|s rest]; [contradiction|].
  destruct s as [ | | |cnd tb fb| |re| | | | |]; try contradiction.
  - (* SIf first *)
    destruct tb as [|s1 tl]; try contradiction.
    destruct s1 as [ | | | | | |ex| | | |]; try contradiction.
    destruct ex; try contradiction. destruct tl; try contradiction. destruct fb; try contradiction.
    assert (Hc : reads_gate g cnd = true \/ exists a b, cnd = EOr a b /\ reads_gate g a = true).
    { destruct (reads_gate g cnd) eqn:R; [left; reflexivity|].
      destruct cnd; try contradiction. destruct (reads_gate g cnd1) eqn:R1; [|contradiction].
      right. exists cnd1, cnd2. auto. }
    destruct (cond_true g cnd (S m) [] Hc Hg) as (x & Ex & Tx).
    rewrite exec_if_first, Ex. cbn [bind]. rewrite Tx. rewrite exec_expr_unimpl. reflexivity.
  - (* SReturn (EIf c EUnimpl _) *)
    destruct re; try contradiction. destruct re2; try contradiction. destruct rest; [|contradiction].
    assert (Hc : reads_gate g re1 = true \/ exists a b, re1 = EOr a b /\ reads_gate g a = true).
    { destruct (reads_gate g re1) eqn:R; [left; reflexivity|].
      destruct re1; try contradiction. destruct (reads_gate g re1_1) eqn:R1; [|contradiction].
      right. exists re1_1, re1_2. auto. }
    destruct (cond_true g re1 m [] Hc Hg) as (x & Ex & Tx).
    rewrite exec_return, eval_if, Ex. cbn [bind]. rewrite Tx, eval_unimpl. reflexivity.
Qed.

(** ** the gate anywhere in an `or` chain: the line never yields a VALUE while the gate is affirmative
    (it answers not-implemented, or it is still waiting for an earlier disjunct - in both cases the return is not reported solved) *)
Fixpoint chain (g:string) (e:expr) : bool :=
  match e with
  | EOr a b => chain g a || chain g b
  | _ => reads_gate g e
  end.

Definition gate_shape_chain (g:string) (body:list stmt) : nat :=
  match body with
  | [SReturn (EIf c EUnimpl _)] => if chain g c then 1%nat else 0%nat
  | SIf c [SExpr EUnimpl] [] :: _ => if chain g c then 3%nat else 0%nat
  | _ => 0%nat
  end.

Lemma chain_truthy g : forall e, chain g e = true ->
  slookup (qualify c g) (x_inps c) = Some (PBool true) ->
  forall m r val, eval c m e r = RVal val -> truthy val = true.
Proof.
  intros e. induction e; intros Hc Hg m r val Ev; cbn [chain] in Hc;
    try (apply reads_gate_eq in Hc; try discriminate Hc).
  - (* a read: the gate itself *)
    inversion Hc; subst. destruct m as [|m]; [discriminate|]. rewrite eval_read_lit in Ev. unfold do_read in Ev. rewrite Hg in Ev.
    inversion Ev; subst. reflexivity.
  - (* or *)
    destruct m as [|m]; [discriminate|]. rewrite eval_or in Ev.
    destruct (eval c m e1 r) as [xa| | | |] eqn:Ea; cbn [bind] in Ev; try discriminate.
    destruct (truthy xa) eqn:Ta.
    + inversion Ev; subst. exact Ta.
    + apply orb_true_iff in Hc as [Hc|Hc].
      * rewrite (IHe1 Hc Hg m r xa Ea) in Ta. discriminate.
      * exact (IHe2 Hc Hg m r val Ev).
Qed.

Theorem gate_blocks (l:line) g fuel :
  gate_shape_chain g (l_body l) <> 0%nat ->
  slookup (qualify c g) (x_inps c) = Some (PBool true) ->
  forall v, line_value c fuel l <> RVal v.
Proof.
  intros Hs Hg v Hv. unfold line_value in Hv.
  unfold gate_shape_chain in Hs.
  destruct (l_body l) as [|s rest]; [contradiction|].
  destruct s as [ | | |cnd tb fb| |re| | | | |]; try contradiction.
  - destruct tb as [|s1 tl]; try contradiction.
    destruct s1 as [ | | | | | |ex| | | |]; try contradiction.
    destruct ex; try contradiction. destruct tl; try contradiction. destruct fb; try contradiction.
    destruct (chain g cnd) eqn:Hc; [|contradiction].
    destruct fuel as [|m]; [discriminate|]. rewrite exec_if_first in Hv.
    destruct (eval c m cnd []) as [x| | | |] eqn:Ec; cbn [bind] in Hv; try discriminate.
    rewrite (chain_truthy g cnd Hc Hg m [] x Ec) in Hv.
    destruct m as [|[|m]]; try discriminate.
  - destruct re; try contradiction. destruct re2; try contradiction. destruct rest; [|contradiction].
    destruct (chain g re1) eqn:Hc; [|contradiction].
    destruct fuel as [|m]; [discriminate|]. rewrite exec_return in Hv.
    destruct m as [|m]; [discriminate|]. rewrite eval_if in Hv.
    destruct (eval c m re1 []) as [x| | | |] eqn:Ec; cbn [bind] in Hv; try discriminate.
    rewrite (chain_truthy g re1 Hc Hg m [] x Ec) in Hv.
    destruct m as [|m]; [discriminate|]. rewrite eval_unimpl in Hv. discriminate.
Qed.
End G.
