(** Control-flow induction for [main_loop]: an invariant preserved by the six primitive moves of the solver
    (attempt one line, pop the queue, drain either tracker, run the prompting phase) holds when the loop exits.
    [P pend s]: invariant with a list of lines that have been taken out of the queue / a tracker and are about
    to be attempted; [Q s]: the invariant between the prompting phase and the drain that follows it. *)
From Coq Require Import ZArith NArith List Bool Lia.
From HV Require Import Solver TrackerProofs RunLemmas.
Import ListNotations.

Definition with_unatt (q:list name) (s:state) : state :=
  State (inp s) (specs s) (forms s) (fmap s) (vals s) q (unimpl s) (solving s)
        (fdep s) (idep s) (refused s) (trace s) (edges s).

Section Sort.
Context (rank:name -> N).
Lemma insert_sorted_in x y l : In y (insert_sorted rank x l) <-> y = x \/ In y l.
Proof.
  induction l as [|z l IH]; cbn; [intuition|].
  destruct (N.ltb (rank x) (rank z)); cbn; [intuition|]. rewrite IH. intuition.
Qed.
Lemma sort_rank_in_acc l : forall acc y,
  In y (fold_left (fun a x => insert_sorted rank x a) l acc) <-> In y l \/ In y acc.
Proof.
  induction l as [|x l IH]; intros acc y; cbn [fold_left]; [cbn; intuition|].
  rewrite IH, insert_sorted_in. cbn. intuition.
Qed.
Lemma sort_rank_in l y : In y (sort_rank rank l) <-> In y l.
Proof. unfold sort_rank. rewrite sort_rank_in_acc. cbn. intuition. Qed.
End Sort.

Section Ind.
Context (C:catalogue) (rank:name -> N) (ans:name -> option V).
Variables (P : list name -> state -> Prop) (Q : state -> Prop).

Hypothesis H_perm : forall pend pend' s, (forall x, In x pend <-> In x pend') -> P pend s -> P pend' s.
Hypothesis H_attempt : forall fuel f pend s s',
  P (f :: pend) s -> attempt_field C rank fuel f s = inl s' -> P pend s'.
Hypothesis H_pop : forall s q f, P [] s -> unatt s = q ++ [f] -> P [f] (with_unatt q s).
Hypothesis H_fdrain : forall s ws t', P [] s -> drain (fdep s) = (ws, t') -> P ws (set_fdep t' s).
Hypothesis H_prompt : forall s, P [] s -> refused s = false ->
  Q (prompt_all ans (sort_rank rank (unmet_dependencies (idep s))) s).
Hypothesis H_noprompt : forall s, P [] s -> refused s = true -> Q s.
Hypothesis H_idrain : forall s ws t', Q s -> drain (idep s) = (ws, t') -> P ws (set_idep t' s).

Lemma attempt_all_P l : forall s s', P l s -> attempt_all C rank l s = inl s' -> P [] s'.
Proof.
  induction l as [|f l IH]; intros s s' HP H; cbn [attempt_all] in H.
  - inversion H; subst; exact HP.
  - destruct (attempt_field C rank retry_fuel f s) as [s1|e] eqn:E; [|discriminate].
    apply (IH s1 s'); [|exact H]. apply (H_attempt _ _ _ _ _ HP E).
Qed.

Lemma drain_queue_P fuel : forall s s', P [] s -> drain_queue C rank fuel s = inl s' -> P [] s' /\ unatt s' = [].
Proof.
  induction fuel as [|n IH]; intros s s' HP H; cbn [drain_queue] in H; [discriminate|].
  destruct (rev (unatt s)) as [|f rq] eqn:Er.
  - inversion H; subst. split; [exact HP|].
    rewrite <- (rev_involutive (unatt s')), Er. reflexivity.
  - match type of H with match attempt_field _ _ _ _ ?s1 with _ => _ end = _ => set (s1' := s1) in * end.
    destruct (attempt_field C rank retry_fuel f s1') as [s2|e] eqn:E; [|discriminate].
    apply (IH s2 s'); [|exact H].
    refine (H_attempt _ _ [] s1' _ _ E).
    apply (H_pop s (rev rq) f HP).
    rewrite <- (rev_involutive (unatt s)), Er. reflexivity.
Qed.

Theorem main_loop_P fuel : forall s s',
  P [] s -> main_loop C rank fuel ans s = inl s' -> P [] s' /\ loop_cond s' = false.
Proof.
  induction fuel as [|n IH]; intros s s' HP H; [discriminate|].
  cbn [main_loop] in H.
  destruct (loop_cond s) eqn:Ec; cbn [negb] in H.
  2:{ inversion H; subst. auto. }
  destruct (drain_queue C rank (S n) s) as [s1|e] eqn:E1; [|discriminate].
  destruct (drain_queue_P _ _ _ HP E1) as [HP1 _].
  destruct (drain (fdep s1)) as [ws t1] eqn:Ed1.
  destruct (attempt_all C rank (sort_rank rank ws) (set_fdep t1 s1)) as [s2|e] eqn:E2; [|discriminate].
  assert (HP2 : P [] s2).
  { refine (attempt_all_P _ _ _ _ E2).
    apply (H_perm ws); [intros x; symmetry; apply sort_rank_in|]. apply H_fdrain; assumption. }
  set (s3 := if refused s2 then s2 else prompt_all ans (sort_rank rank (unmet_dependencies (idep s2))) s2) in *.
  assert (HQ3 : Q s3).
  { unfold s3. destruct (refused s2) eqn:Er; [apply H_noprompt|apply H_prompt]; assumption. }
  destruct (drain (idep s3)) as [wi t2] eqn:Ed2.
  destruct (attempt_all C rank wi (set_idep t2 s3)) as [s4|e] eqn:E4; [|discriminate].
  apply (IH s4 s'); [|exact H].
  refine (attempt_all_P _ _ _ _ E4). apply H_idrain; assumption.
Qed.

(* an abort hands back a state that satisfies the invariant of the phase it happened in *)
Theorem main_loop_P_err fuel : forall s e sx,
  P [] s -> main_loop C rank fuel ans s = inr (e, sx) -> P [] sx \/ Q sx.
Proof.
  induction fuel as [|n IH]; intros s e sx HP H; [inversion H; subst; auto|].
  cbn [main_loop] in H.
  destruct (loop_cond s) eqn:Ec; cbn [negb] in H; [|discriminate].
  destruct (drain_queue C rank (S n) s) as [s1|e1] eqn:E1; [|inversion H; subst; auto].
  destruct (drain_queue_P _ _ _ HP E1) as [HP1 _].
  destruct (drain (fdep s1)) as [ws t1] eqn:Ed1.
  destruct (attempt_all C rank (sort_rank rank ws) (set_fdep t1 s1)) as [s2|e2] eqn:E2; [|inversion H; subst; auto].
  assert (HP2 : P [] s2).
  { refine (attempt_all_P _ _ _ _ E2).
    apply (H_perm ws); [intros x; symmetry; apply sort_rank_in|]. apply H_fdrain; assumption. }
  set (s3 := if refused s2 then s2 else prompt_all ans (sort_rank rank (unmet_dependencies (idep s2))) s2) in *.
  assert (HQ3 : Q s3).
  { unfold s3. destruct (refused s2) eqn:Er; [apply H_noprompt|apply H_prompt]; assumption. }
  destruct (drain (idep s3)) as [wi t2] eqn:Ed2.
  destruct (attempt_all C rank wi (set_idep t2 s3)) as [s4|e4] eqn:E4; [|inversion H; subst; auto].
  apply (IH s4 e sx); [|exact H].
  refine (attempt_all_P _ _ _ _ E4). apply H_idrain; assumption.
Qed.
End Ind.
