(** Small concrete catalogues used as non-vacuity witnesses by the property files. *)
From Coq Require Import ZArith NArith List Bool.
From HV Require Import Solver.
Import ListNotations.
Open Scope Z_scope.

(* forms: 0 = "a" (requested), 1 = "b" (discovered late); lines 10,11,12 of a; 20,21 of b; inputs 30 (a), 31 (b)
   a.10 := i[30] + v[b.20]      a.11 := if v[a.10] < 5 then 1 else v[a.12]      a.12 := v[a.11]  (cycle with 11)
   b.20 := i[31]                b.21 := not_implemented() *)
Definition exC : catalogue :=
  Cat (fun f => match f with
                | 0%N => Some (FormInfo [30%N] [10%N; 11%N] [12%N])
                | 1%N => Some (FormInfo [31%N] [20%N] [21%N])
                | _ => None end)
      (fun l => match l with
                | 10%N => ReadI 30%N (fun x => ReadV 20%N (fun y => Ret (x + y)))
                | 11%N => ReadV 10%N (fun x => if x <? 5 then Ret 1 else ReadV 12%N (fun y => Ret y))
                | 12%N => ReadV 11%N (fun y => Ret y)
                | 20%N => ReadI 31%N (fun x => Ret x)
                | 21%N => Unimpl
                | _ => Crash 0 end)
      (fun l => if (l <? 20)%N then 0%N else 1%N)
      (fun i => if (i =? 30)%N then 0%N else 1%N).
Definition exRank (n:name) : N := n.

(* all inputs present, small values: solves, pulls in form b and only line 20 of it *)
Definition ex_solved := solve exC exRank 50 [0%N] [] [(30%N, Some 1); (31%N, Some 2)] false (fun _ => None).
(* a.10 = 7 >= 5: lines 11 and 12 wait on each other forever: not solved, both named as blocked *)
Definition ex_cycle := solve exC exRank 50 [0%N] [] [(30%N, Some 3); (31%N, Some 4)] false (fun _ => None).
(* input 31 missing, prompt answers it *)
Definition ex_prompt := solve exC exRank 50 [0%N] [] [(30%N, Some 1)] true (fun i => if (i =? 31)%N then Some 2 else None).
(* input 31 missing, user refuses *)
Definition ex_refused := solve exC exRank 50 [0%N] [] [(30%N, Some 1)] true (fun _ => None).
(* the unimplemented optional line is requested explicitly *)
Definition ex_unimpl := solve exC exRank 50 [0%N; 1%N] [21%N] [(30%N, Some 1); (31%N, Some 2)] false (fun _ => None).

Definition is_solved (r:state + (err * state)) : bool := match r with inl s => solved s | inr _ => false end.
Definition is_done (r:state + (err * state)) : bool := match r with inl _ => true | inr _ => false end.
