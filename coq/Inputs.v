(** C11 — model of habutax/inputs.py: the seven input classes' [valid]/[value] over ASCII strings, and
    InputStore.__getitem__.  Python's int()/float() literal grammars are modelled (sign, digits with single
    underscores between digits, fraction, exponent, inf/infinity/nan case-insensitively); a byte >= 128 is an opaque
    "other" character (never a digit, never white space): stated limit.  No proofs in this file. *)
From Coq Require Import ZArith QArith List Bool String Ascii.
Import ListNotations.
Open Scope string_scope.

Definition code (c:ascii) : nat := nat_of_ascii c.
(* str.strip() white space, ASCII range: \t \n \v \f \r, FS GS RS US, space *)
Definition py_space (c:ascii) : bool :=
  let n := code c in ((9 <=? n) && (n <=? 13))%nat || ((28 <=? n) && (n <=? 32))%nat.
Fixpoint lstrip (s:string) : string := match s with String c r => if py_space c then lstrip r else s | _ => s end.
Fixpoint srev (s acc:string) : string := match s with EmptyString => acc | String c r => srev r (String c acc) end.
Definition strip (s:string) : string := srev (lstrip (srev (lstrip s) "")) "".
Definition lower_c (c:ascii) : ascii := let n := code c in if ((65 <=? n) && (n <=? 90))%nat then ascii_of_nat (n + 32) else c.
Fixpoint lower (s:string) : string := match s with EmptyString => s | String c r => String (lower_c c) (lower r) end.
Definition is_digit (c:ascii) : bool := let n := code c in ((48 <=? n) && (n <=? 57))%nat.
Definition digit_val (c:ascii) : Z := Z.of_nat (code c - 48).

Inductive ival :=                 (* a typed input value *)
| VStr (s:string) | VBool (b:bool) | VInt (z:Z)
| VFloat (q:Q)                    (* a finite float, exact decimal value of the literal (rounding to binary64 not modelled) *)
| VInf (neg:bool) | VNan          (* what float() also returns: not finite *)
| VEnum (m:string) | VNone.

(** * int() / float() literal grammars *)
(* digits with single underscores between digits; returns (value, number of digits) *)
Fixpoint digits_us (s:string) (acc:Z) (n:nat) (prev_digit:bool) : option (Z * nat * string) :=
  match s with
  | EmptyString => if prev_digit then Some (acc, n, s) else None
  | String c r =>
      if is_digit c then digits_us r (acc * 10 + digit_val c)%Z (S n) true
      else if Ascii.eqb c "_" then (if prev_digit then match r with
                                                       | String d _ => if is_digit d then digits_us r acc n false else None
                                                       | _ => None end
                                   else None)
      else if prev_digit then Some (acc, n, s) else None
  end.
(* a possibly empty digit run (for the fraction part, or the integer part when a fraction follows) *)
Definition digits_opt (s:string) : option (Z * nat * string) :=
  match s with
  | String c _ => if is_digit c then digits_us s 0 0 false else Some (0%Z, 0%nat, s)
  | EmptyString => Some (0%Z, 0%nat, s)
  end.

Definition sign_of (s:string) : bool * string :=
  match s with
  | String "-" r => (true, r)
  | String "+" r => (false, r)
  | _ => (false, s)
  end.

Definition py_int (s:string) : option Z :=       (* int(s) for an already stripped s; None = ValueError *)
  let '(neg, r) := sign_of s in
  match r with
  | EmptyString => None
  | _ => match digits_us r 0 0 false with
         | Some (v, _, EmptyString) => Some (if neg then (- v)%Z else v)
         | _ => None
         end
  end.

Definition pow10q (e:Z) : Q := if (0 <=? e)%Z then inject_Z (10 ^ e) else (1 / inject_Z (10 ^ (- e)))%Q.
(* |q| at or above this rounds to infinity in binary64 (round-half-even): 2^1024 - 2^970 *)
Definition overflow_threshold : Q := inject_Z (2 ^ 1024 - 2 ^ 970).

Definition py_float (s:string) : option ival :=  (* float(s) for an already stripped s *)
  let '(neg, r) := sign_of s in
  let lr := lower r in
  if String.eqb lr "inf" || String.eqb lr "infinity" then Some (VInf neg)
  else if String.eqb lr "nan" then Some VNan
  else
    match digits_opt r with
    | None => None
    | Some (ip, ni, rest) =>
        let frac := match rest with
                    | String "." r2 => match digits_opt r2 with Some (fp, nf, r3) => Some (fp, nf, r3) | None => None end
                    | _ => Some (0%Z, 0%nat, rest)
                    end in
        match frac with
        | None => None
        | Some (fp, nf, rest2) =>
            if ((ni + nf)%nat =? 0)%nat then None
            else
              let expo := match rest2 with
                          | String c r3 =>
                              if Ascii.eqb c "e" || Ascii.eqb c "E" then
                                let '(eneg, r4) := sign_of r3 in
                                match r4 with
                                | EmptyString => None
                                | _ => match digits_us r4 0 0 false with
                                       | Some (ev, _, EmptyString) => Some (if eneg then (- ev)%Z else ev)
                                       | _ => None
                                       end
                                end
                              else None
                          | EmptyString => Some 0%Z
                          end in
              match expo with
              | None => None
              | Some e =>
                  (* decide hopeless magnitudes without computing 10^e: 0.30102 < log10 2 < 0.30103 *)
                  let m := (ip * 10 ^ Z.of_nat nf + fp)%Z in
                  let e' := (e - Z.of_nat nf)%Z in
                  if (m =? 0)%Z then Some (VFloat 0)
                  else if (310 * 100000 <=? Z.log2 m * 30102 + e' * 100000)%Z then Some (VInf neg)
                  else if ((Z.log2 m + 1) * 30103 + e' * 100000 <? -400 * 100000)%Z then Some (VFloat 0)
                  else
                    let q := (inject_Z m * pow10q e')%Q in
                    if Qle_bool overflow_threshold q then Some (VInf neg)
                    else Some (VFloat (Qred (if neg then - q else q)))
              end
        end
    end.

(** * the input classes *)
Inductive icls :=
| IString | IBoolean | IInteger | IFloat
| IEnum (members:list string) (allow_empty:bool)
| IRegex (matches:string -> bool)       (* re.match(pattern, .) : the regular-expression engine is not modelled *)
| ISSN.

Definition mem_s (x:string) (l:list string) : bool := existsb (String.eqb x) l.
Fixpoint remove_dash (s:string) : string :=
  match s with EmptyString => s | String c r => if Ascii.eqb c "-" then remove_dash r else String c (remove_dash r) end.
Fixpoint all_digits (s:string) : bool := match s with EmptyString => true | String c r => is_digit c && all_digits r end.

(* value(string): None = raises (ValueError / KeyError) *)
Definition value (k:icls) (s:string) : option ival :=
  let t := strip s in
  match k with
  | IString => Some (VStr t)
  | IBoolean =>
      let l := lower t in
      if mem_s l ["true"; "yes"; "y"; "1"; "on"] then Some (VBool true)
      else if mem_s l ["false"; "no"; "n"; "0"; "off"] then Some (VBool false)
      else None
  | IInteger => if String.eqb t "" then Some (VInt 0) else option_map VInt (py_int t)
  | IFloat => if String.eqb t "" then Some (VFloat 0)
              else match py_float t with Some (VFloat q) => Some (VFloat q) | _ => None end    (* math.isfinite guard *)
  | IEnum members allow_empty =>
      if String.eqb t "" && allow_empty then Some VNone
      else if mem_s t members then Some (VEnum t) else None
  | IRegex _ => Some (VStr t)
  | ISSN => Some (VStr (remove_dash t))
  end.

(* valid(string) as written in inputs.py (Enum/Regex/SSN override it) *)
Definition valid (k:icls) (s:string) : bool :=
  match k with
  | IEnum members allow_empty =>
      let t := strip s in
      if String.eqb t "" && allow_empty then true else mem_s t members
  | IRegex m => m (strip s)
  | ISSN => let v := remove_dash (strip s) in (String.length v =? 9)%nat && all_digits v
  | _ => match value k s with Some _ => true | None => false end
  end.

(** * InputStore.__getitem__ (inputs.py:201-211) *)
Inductive getres := GMissingSpec | GMissing | GInvalid (raw:string) | GValue (v:ival) | GRaise.
Definition getitem (spec:option icls) (provided:option string) : getres :=
  match spec with
  | None => GMissingSpec
  | Some k =>
      match provided with
      | None => GMissing
      | Some raw => if valid k raw then match value k raw with Some v => GValue v | None => GRaise end
                    else GInvalid raw
      end
  end.

(* the two patterns the shipped forms use, for the correspondence (the engine itself is trusted) *)
Definition acct_char (c:ascii) : bool :=
  let n := code c in is_digit c || ((65 <=? n) && (n <=? 90))%nat || ((97 <=? n) && (n <=? 122))%nat || Ascii.eqb c "-".
Fixpoint all_chars (p:ascii -> bool) (s:string) : bool := match s with EmptyString => true | String c r => p c && all_chars p r end.
Definition re_account (s:string) : bool :=
  let n := String.length s in (1 <=? n)%nat && (n <=? 17)%nat && all_chars acct_char s.
Definition re_routing (s:string) : bool :=
  (String.length s =? 9)%nat && all_digits s &&
  match s with
  | String a (String b _) =>
      let d := (digit_val a * 10 + digit_val b)%Z in
      ((1 <=? d) && (d <=? 12))%Z || ((21 <=? d) && (d <=? 32))%Z
  | _ => false
  end.

(** * flat rendering for the correspondence *)
Definition codes (s:string) : list Z := map (fun c => Z.of_nat (code c)) (list_ascii_of_string s).
Definition string_of_codes (l:list Z) : string := string_of_list_ascii (map (fun z => ascii_of_nat (Z.to_nat z)) l).
Definition render_val (v:ival) : list Z :=
  match v with
  | VStr s => (0 :: Z.of_nat (String.length s) :: codes s)%Z
  | VBool b => [1; if b then 1 else 0]%Z
  | VInt z => [2; z]%Z
  | VFloat q => [3; Qnum (Qred q); Zpos (Qden (Qred q))]%Z
  | VInf n => [4; if n then 1 else 0]%Z
  | VNan => [5]%Z
  | VEnum m => (6 :: Z.of_nat (String.length m) :: codes m)%Z
  | VNone => [7]%Z
  end.
Definition render_get (g:getres) : list Z :=
  match g with
  | GMissingSpec => [0]%Z | GMissing => [1]%Z | GInvalid _ => [2]%Z | GValue v => (3 :: render_val v)%Z | GRaise => [9]%Z
  end.
Definition render_case (k:icls) (raw:list Z) : list Z :=
  let s := string_of_codes raw in
  ((if valid k s then 1 else 0) :: match value k s with Some v => 1 :: render_val v | None => [0] end
   ++ 77 :: render_get (getitem (Some k) (Some s)))%Z.
