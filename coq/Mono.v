(** Direction analysis of the arithmetic reading of a money line, sound for every pair of stores:
    if the lines and inputs a line reads move in their stated directions between two stores, the value of the line
    moves in the computed direction.  Rounding is monotone, so the stored values do too. *)
From Coq Require Import ZArith QArith Qminmax Lqa List String Bool Lia.
From HV Require Import Forms Xexp XexpProofs Rounding.
Import ListNotations.
Open Scope string_scope.

Inductive dir := Up | Down | Const.

Definition flip (d:dir) : dir := match d with Up => Down | Down => Up | Const => Const end.
Definition join (a b:option dir) : option dir :=
  match a, b with
  | Some Const, d | d, Some Const => d
  | Some Up, Some Up => Some Up
  | Some Down, Some Down => Some Down
  | _, _ => None
  end.
Definition oflip (d:option dir) : option dir := option_map flip d.

(* how two numbers are related *)
Definition related (d:dir) (x x':Q) : Prop :=
  match d with Up => x <= x' | Down => x' <= x | Const => x == x' end.
Definition orelated (d:option dir) (x x':Q) : Prop := match d with Some d => related d x x' | None => True end.


(* syntactic equality, and the "subtract, but not below zero" idiom written as a conditional *)
Fixpoint xexp_eqb (a b:xexp) : bool :=
  match a, b with
  | XConst p, XConst q => Qeq_bool p q
  | XLine n, XLine m | XInp n, XInp m => String.eqb n m
  | XAdd x y, XAdd x' y' | XSub x y, XSub x' y' | XMax x y, XMax x' y' | XMin x y, XMin x' y' => xexp_eqb x x' && xexp_eqb y y'
  | XScale k x, XScale k' x' => Qeq_bool k k' && xexp_eqb x x'
  | XNeg x, XNeg x' => xexp_eqb x x'
  | _, _ => false
  end.
Definition is_gt (op:cop) : bool := match op with CGt | CGe => true | _ => false end.
Definition is_lt (op:cop) : bool := match op with CLt | CLe => true | _ => false end.
(* Some (h, l): the conditional equals max(0, h - l) *)
Definition floor_sub (op:cop) (a b t e:xexp) : option (xexp * xexp) :=
  match t, e with
  | XConst z, XSub h l =>
      if Qeq_bool z 0 && ((is_gt op && xexp_eqb h b && xexp_eqb l a) || (is_lt op && xexp_eqb h a && xexp_eqb l b)) then Some (h, l) else None
  | XSub h l, XConst z =>
      if Qeq_bool z 0 && ((is_gt op && xexp_eqb h a && xexp_eqb l b) || (is_lt op && xexp_eqb h b && xexp_eqb l a)) then Some (h, l) else None
  | _, _ => None
  end.

Fixpoint dir_of (dl di:string -> option dir) (a:xexp) : option dir :=
  match a with
  | XConst _ => Some Const
  | XLine n => dl n
  | XInp n => di n
  | XAdd x y => join (dir_of dl di x) (dir_of dl di y)
  | XSub x y => join (dir_of dl di x) (oflip (dir_of dl di y))
  | XScale k x => if Qle_bool 0 k then dir_of dl di x else oflip (dir_of dl di x)
  | XNeg x => oflip (dir_of dl di x)
  | XMax x y | XMin x y => join (dir_of dl di x) (dir_of dl di y)
  | XIf op a b t e =>
      match floor_sub op a b t e with
      | Some _ => match t with XConst _ => dir_of dl di e | _ => dir_of dl di t end      (* = max(0, the subtraction arm) *)
      | None =>
          match dir_of dl di a, dir_of dl di b with
          | Some Const, Some Const => join (dir_of dl di t) (dir_of dl di e)
          | _, _ => None
          end
      end
  end.


Lemma xexp_eqb_sound a : forall b, xexp_eqb a b = true -> forall ev ei, xeval ev ei a == xeval ev ei b.
Proof.
  induction a; intros b H ev ei; destruct b; try discriminate; cbn in H; cbn [xeval];
    repeat match type of H with (_ && _ = true) => apply andb_true_iff in H; destruct H as [? H] end.
  - apply Qeq_bool_iff. exact H.
  - apply String.eqb_eq in H. subst. reflexivity.
  - apply String.eqb_eq in H. subst. reflexivity.
  - rewrite (IHa1 _ H0), (IHa2 _ H). reflexivity.
  - rewrite (IHa1 _ H0), (IHa2 _ H). reflexivity.
  - apply Qeq_bool_iff in H0. rewrite (IHa _ H), H0. reflexivity.
  - rewrite (IHa _ H). reflexivity.
  - rewrite (IHa1 _ H0), (IHa2 _ H). reflexivity.
  - rewrite (IHa1 _ H0), (IHa2 _ H). reflexivity.
Qed.

Lemma floor_sub_sound op a b t e h l : floor_sub op a b t e = Some (h, l) ->
  forall ev ei, xeval ev ei (XIf op a b t e) == Qmax 0 (xeval ev ei h - xeval ev ei l).
Proof.
  intros H ev ei. cbn [xeval]. unfold floor_sub in H.
  destruct t; try discriminate; destruct e; try discriminate.
  - (* 0 if cond else h - l *)
    destruct (Qeq_bool q 0) eqn:Z; [|discriminate]. apply Qeq_bool_iff in Z. cbn [andb] in H.
    destruct ((is_gt op && xexp_eqb e1 b && xexp_eqb e2 a) || (is_lt op && xexp_eqb e1 a && xexp_eqb e2 b)) eqn:C; [|discriminate].
    inversion H; subst. cbn [xeval]. apply orb_true_iff in C. destruct C as [C|C];
      apply andb_true_iff in C; destruct C as [C E2]; apply andb_true_iff in C; destruct C as [O E1];
      pose proof (xexp_eqb_sound _ _ E1 ev ei) as Hh; pose proof (xexp_eqb_sound _ _ E2 ev ei) as Hl;
      destruct op; try discriminate; unfold num_cmp;
      match goal with |- context[Qle_bool ?x ?y] => destruct (Qle_bool x y) eqn:L; [apply Qle_bool_iff in L|apply Qle_bool_false in L] end;
      cbn [negb]; rewrite ?Z; symmetry; first [apply Q.max_l; lra | apply Q.max_r; lra].
  - destruct (Qeq_bool q 0) eqn:Z; [|discriminate]. apply Qeq_bool_iff in Z. cbn [andb] in H.
    destruct ((is_gt op && xexp_eqb t1 a && xexp_eqb t2 b) || (is_lt op && xexp_eqb t1 b && xexp_eqb t2 a)) eqn:C; [|discriminate].
    inversion H; subst. cbn [xeval]. apply orb_true_iff in C. destruct C as [C|C];
      apply andb_true_iff in C; destruct C as [C E2]; apply andb_true_iff in C; destruct C as [O E1];
      pose proof (xexp_eqb_sound _ _ E1 ev ei) as Hh; pose proof (xexp_eqb_sound _ _ E2 ev ei) as Hl;
      destruct op; try discriminate; unfold num_cmp;
      match goal with |- context[Qle_bool ?x ?y] => destruct (Qle_bool x y) eqn:L; [apply Qle_bool_iff in L|apply Qle_bool_false in L] end;
      cbn [negb]; rewrite ?Z; symmetry; first [apply Q.max_l; lra | apply Q.max_r; lra].
Qed.

Lemma related_const_l d x x' y y' : x == x' -> related d y y' -> related d (x + y) (x' + y').
Proof. destruct d; cbn; intros; lra. Qed.

Lemma join_related a b d x x' y y' :
  join a b = Some d -> orelated a x x' -> orelated b y y' ->
  related d (x + y) (x' + y') /\ related d (Qmax x y) (Qmax x' y') /\ related d (Qmin x y) (Qmin x' y').
Proof.
  intros J Hx Hy.
  assert (Hmax : forall p q p' q', p <= p' -> q <= q' -> Qmax p q <= Qmax p' q').
  { intros. apply Q.max_le_compat; assumption. }
  assert (Hmin : forall p q p' q', p <= p' -> q <= q' -> Qmin p q <= Qmin p' q').
  { intros. apply Q.min_le_compat; assumption. }
  destruct a as [[| |]|], b as [[| |]|]; cbn in J; inversion J; subst; cbn in *;
    repeat split; try lra;
    try (apply Hmax; lra); try (apply Hmin; lra);
    try (rewrite Hx, Hy; reflexivity); try (rewrite Hx; apply Hmax; lra); try (rewrite Hx; apply Hmin; lra);
    try (rewrite Hy; apply Hmax; lra); try (rewrite Hy; apply Hmin; lra);
    try (rewrite <- Hx; apply Hmax; lra); try (rewrite <- Hx; apply Hmin; lra);
    try (rewrite <- Hy; apply Hmax; lra); try (rewrite <- Hy; apply Hmin; lra).
Qed.

Lemma join_pick a b d (c:bool) x x' y y' :
  join a b = Some d -> orelated a x x' -> orelated b y y' -> related d (if c then x else y) (if c then x' else y').
Proof.
  intros J Hx Hy.
  destruct a as [[| |]|], b as [[| |]|]; cbn in J; inversion J; subst; cbn in *; destruct c; try assumption; try lra.
Qed.

Lemma oflip_related a x x' : orelated a x x' -> orelated (oflip a) (- x) (- x').
Proof. destruct a as [[| |]|]; cbn; intros; try lra; exact I. Qed.

Lemma related_orelated d x x' : related d x x' -> orelated (Some d) x x'.
Proof. auto. Qed.

Section Sound.
Context (dl di:string -> option dir) (ev ev' ei ei':string -> Q).
Hypothesis Hl : forall n, orelated (dl n) (ev n) (ev' n).
Hypothesis Hi : forall n, orelated (di n) (ei n) (ei' n).

Lemma dir_sound a : orelated (dir_of dl di a) (xeval ev ei a) (xeval ev' ei' a).
Proof.
  induction a as [q|n|n|x IHx y IHy|x IHx y IHy|k x IHx|x IHx|x IHx y IHy|x IHx y IHy|op a IHa b IHb t IHt e IHe]; cbn [dir_of xeval].
  - cbn. reflexivity.
  - apply Hl.
  - apply Hi.
  - destruct (join (dir_of dl di x) (dir_of dl di y)) as [d|] eqn:J; [|exact I].
    apply (join_related _ _ _ _ _ _ _ J IHx IHy).
  - destruct (join (dir_of dl di x) (oflip (dir_of dl di y))) as [d|] eqn:J; [|exact I].
    unfold Qminus. apply (join_related _ _ _ _ _ _ _ J IHx (oflip_related _ _ _ IHy)).
  - destruct (Qle_bool 0 k) eqn:K.
    + apply Qle_bool_iff in K. destruct (dir_of dl di x) as [[| |]|]; cbn in *; try exact I.
      * apply Qmult_le_compat_r; assumption.
      * apply Qmult_le_compat_r; assumption.
      * rewrite IHx. reflexivity.
    + apply Qle_bool_false in K. destruct (dir_of dl di x) as [[| |]|]; cbn in *; try exact I.
      * assert (A : xeval ev' ei' x * k <= xeval ev ei x * k); [|exact A].
        setoid_replace (xeval ev' ei' x * k) with (- (xeval ev' ei' x * - k)) by ring.
        setoid_replace (xeval ev ei x * k) with (- (xeval ev ei x * - k)) by ring.
        apply Qopp_le_compat. apply Qmult_le_compat_r; lra.
      * assert (A : xeval ev ei x * k <= xeval ev' ei' x * k); [|exact A].
        setoid_replace (xeval ev' ei' x * k) with (- (xeval ev' ei' x * - k)) by ring.
        setoid_replace (xeval ev ei x * k) with (- (xeval ev ei x * - k)) by ring.
        apply Qopp_le_compat. apply Qmult_le_compat_r; lra.
      * rewrite IHx. reflexivity.
  - apply oflip_related. exact IHx.
  - destruct (join (dir_of dl di x) (dir_of dl di y)) as [d|] eqn:J; [|exact I].
    apply (join_related _ _ _ _ _ _ _ J IHx IHy).
  - destruct (join (dir_of dl di x) (dir_of dl di y)) as [d|] eqn:J; [|exact I].
    apply (join_related _ _ _ _ _ _ _ J IHx IHy).
  - destruct (floor_sub op a b t e) as [[h l]|] eqn:F.
    + pose proof (floor_sub_sound _ _ _ _ _ _ _ F ev ei) as S1. pose proof (floor_sub_sound _ _ _ _ _ _ _ F ev' ei') as S2.
      cbn [xeval] in S1, S2.
      assert (M : forall d x x', related d x x' -> related d (Qmax 0 x) (Qmax 0 x')).
      { intros d x x' R. destruct d; cbn in *.
        - apply Q.max_le_compat; lra.
        - apply Q.max_le_compat; lra.
        - rewrite R. reflexivity. }
      unfold floor_sub in F.
      destruct t; try discriminate; destruct e; try discriminate.
      * destruct (Qeq_bool q 0 && _); [|discriminate]. inversion F; subst.
        destruct (dir_of dl di (XSub h l)) as [d|]; [|exact I]. cbn [xeval] in IHe. pose proof (M d _ _ IHe) as R.
        destruct d; cbn in *; rewrite S1, S2; exact R.
      * destruct (Qeq_bool q 0 && _); [|discriminate]. inversion F; subst.
        destruct (dir_of dl di (XSub h l)) as [d|]; [|exact I]. cbn [xeval] in IHt. pose proof (M d _ _ IHt) as R.
        destruct d; cbn in *; rewrite S1, S2; exact R.
    + destruct (dir_of dl di a) as [[| |]|]; try exact I.
      destruct (dir_of dl di b) as [[| |]|]; try exact I.
      destruct (join (dir_of dl di t) (dir_of dl di e)) as [d|] eqn:J; [|exact I].
      cbn in IHa, IHb. rewrite (num_cmp_comp op _ _ _ _ IHa IHb).
      apply (join_pick _ _ _ _ _ _ _ _ J IHt IHe).
Qed.

(** the stored values: rounding keeps the relation *)
Lemma qround_related p d x x' : (0 <= p)%Z -> related d x x' -> related d (qround p x) (qround p x').
Proof.
  intros Hp. destruct d; cbn [related]; intros H.
  - apply qround_mono; assumption.
  - apply qround_mono; assumption.
  - rewrite (qround_compat p _ _ H). reflexivity.
Qed.

Definition arm_dir (a:arm) : option dir :=
  match a with AVal x => dir_of dl di x | ABlank => Some Const | AUnimpl => Some Const end.
Definition top_dir (t:top) : option dir :=
  match t with
  | TPlain x => dir_of dl di x
  | TCond (CCmp op a b) t1 t2 =>
      match dir_of dl di a, dir_of dl di b with
      | Some Const, Some Const => join (arm_dir t1) (arm_dir t2)
      | _, _ => None
      end
  | TCond COpaque _ _ => None
  end.

Lemma arm_related p a q q' : (0 <= p)%Z -> armsem ev ei p a q -> armsem ev' ei' p a q' -> orelated (arm_dir a) q q'.
Proof.
  intros Hp H H'. destruct a as [x| |]; cbn in *.
  - pose proof (dir_sound x) as S. destruct (dir_of dl di x) as [d|]; [|exact I]. cbn in S.
    pose proof (qround_related p d _ _ Hp S) as R.
    destruct d; cbn in *; rewrite H, H'; exact R.
  - rewrite H, H'. reflexivity.
  - contradiction.
Qed.

Theorem top_dir_sound p t q q' : (0 <= p)%Z -> tsem ev ei p t q -> tsem ev' ei' p t q' -> orelated (top_dir t) q q'.
Proof.
  intros Hp H H'. destruct t as [x|c t1 t2]; cbn [top_dir].
  - apply (arm_related p (AVal x) q q' Hp H H').
  - destruct c as [op a b|]; [|exact I].
    pose proof (dir_sound a) as Sa. pose proof (dir_sound b) as Sb.
    destruct (dir_of dl di a) as [[| |]|]; try exact I.
    destruct (dir_of dl di b) as [[| |]|]; try exact I.
    destruct (join (arm_dir t1) (arm_dir t2)) as [d|] eqn:J; [|exact I].
    cbn in Sa, Sb. cbn [tsem cholds] in H, H'.
    rewrite <- (num_cmp_comp op _ _ _ _ Sa Sb) in H'.
    destruct (num_cmp op (xeval ev ei a) (xeval ev ei b)).
    + destruct H as [[_ H]|[C _]]; [|congruence]. destruct H' as [[_ H']|[C _]]; [|congruence].
      pose proof (arm_related p t1 q q' Hp H H') as R.
      destruct (arm_dir t1) as [[| |]|], (arm_dir t2) as [[| |]|]; cbn in J; inversion J; subst; cbn in *; try assumption; lra.
    + destruct H as [[C _]|[_ H]]; [congruence|]. destruct H' as [[C _]|[_ H']]; [congruence|].
      pose proof (arm_related p t2 q q' Hp H H') as R.
      destruct (arm_dir t1) as [[| |]|], (arm_dir t2) as [[| |]|]; cbn in J; inversion J; subst; cbn in *; try assumption; lra.
Qed.
End Sound.
