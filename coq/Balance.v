(** Shared lemmas and tactics for the generated C15 / C16 files: from the fixed-point reading of a solved return
    ([Xexp.tsem] for each stored money line, obtained from [XexpProofs.xtop_sound]) to balance, sign and slope facts. *)
From Coq Require Import ZArith QArith Qminmax Lqa List String Bool Lia.
From HV Require Import Forms FormsCheck FieldsProofs Xexp XexpProofs Rounding.
Import ListNotations.
Open Scope string_scope.

Definition line_of (cat:catalogue) (f l:string) : option line :=
  match find_form cat f with Some fm => find_line (f_lines fm) l | None => None end.
Definition top_of (cat:catalogue) (f l:string) : option top :=
  match line_of cat f l with Some ln => xtop (l_body ln) | None => None end.
Definition places_of_line (cat:catalogue) (f l:string) : Z :=
  match line_of cat f l with Some ln => match l_type ln with TFloat p => p | _ => 0%Z end | None => 0%Z end.
Definition is_float_line (cat:catalogue) (f l:string) : bool :=
  match line_of cat f l with Some ln => match l_type ln with TFloat _ => true | _ => false end | None => false end.

Definition tsem_o ev ei p (t:option top) q := match t with Some t => tsem ev ei p t q | None => False end.
Definition top_or0 (t:option top) : top := match t with Some t => t | None => TPlain (XConst 0) end.

(* a stored money value lies on the grid of its line *)
Lemma tsem_grid ev ei p t q : (0 <= p)%Z -> tsem ev ei p t q -> grid p q.
Proof.
  intros Hp. destruct t as [x|c a b]; cbn [tsem].
  - intros E. eapply grid_comp; [symmetry; exact E|apply qround_grid].
  - intros [[_ H]|[_ H]]; [destruct a|destruct b]; cbn [armsem] in H; try contradiction;
      try (eapply grid_comp; [symmetry; exact H|apply qround_grid]); (eapply grid_comp; [symmetry; exact H|apply grid_0]).
Qed.

Lemma line_grid c fuel l p q : l_type l = TFloat p -> line_value c fuel l = RVal (PNum q) -> grid p q.
Proof.
  intros Ht Hv. pose proof (line_value_goes_through_typed_value c fuel l _ Hv) as H.
  rewrite Ht in H. cbn in H. destruct H as [q0 E]. subst q. apply qround_grid.
Qed.

(* hypotheses "0 <= ev n" for a list of names *)
Fixpoint nn_hyp (ev:string -> Q) (ns:list string) (concl:Prop) : Prop :=
  match ns with [] => concl | n :: r => 0 <= ev n -> nn_hyp ev r concl end.
Fixpoint smem (n:string) (l:list string) : bool := match l with [] => false | x :: r => String.eqb n x || smem n r end.
Fixpoint sdedup (l:list string) : list string :=
  match l with [] => [] | x :: r => if smem x r then sdedup r else x :: sdedup r end.
Definition qual (f n:string) : string := if has_dot n then n else f ++ "." ++ n.
Definition nn_lines (f:string) (mayneg:list string) (t:top) : list string :=
  sdedup (filter (fun n => negb (smem (qual f n) mayneg)) (top_lines t)).
Definition nn_inps (t:top) : list string := sdedup (top_inps t).

Ltac grid_tac :=
  repeat first [ assumption | apply grid_0 | apply qround_grid
               | apply grid_add; [lia| |] | apply grid_sub; [lia| |] | apply grid_opp; [lia|] | apply grid_max | apply grid_min ].
(* remove roundings that provably do nothing: lattice operations commute with rounding, grid arithmetic is fixed by it *)
Ltac rpush_in H p :=
  repeat first
  [ rewrite (qround_min p) in H by lia
  | rewrite (qround_max p) in H by lia
  | rewrite (qround_0 p) in H
  | match type of H with context[qround p ?x] => rewrite (qround_id p x) in H by (first [lia | grid_tac]) end ].
Ltac num_norm E :=
  unfold num_cmp in E; rewrite ?negb_true_iff, ?negb_false_iff in E;
  first [apply Qle_bool_iff in E | apply Qle_bool_false in E].
Ltac num_cases :=
  repeat match goal with
  | H : context[num_cmp ?op ?x ?y] |- _ => let E := fresh "E" in destruct (num_cmp op x y) eqn:E; num_norm E
  | |- context[num_cmp ?op ?x ?y] => let E := fresh "E" in destruct (num_cmp op x y) eqn:E; num_norm E
  end.
Ltac mm_cases :=
  repeat match goal with
  | H : context[Qmax ?x ?y] |- _ => let A := fresh "A" in let B := fresh "B" in destruct (Q.max_spec x y) as [[A B]|[A B]]; rewrite B in *; clear B
  | H : context[Qmin ?x ?y] |- _ => let A := fresh "A" in let B := fresh "B" in destruct (Q.min_spec x y) as [[A B]|[A B]]; rewrite B in *; clear B
  | |- context[Qmax ?x ?y] => let A := fresh "A" in let B := fresh "B" in destruct (Q.max_spec x y) as [[A B]|[A B]]; rewrite B in *; clear B
  | |- context[Qmin ?x ?y] => let A := fresh "A" in let B := fresh "B" in destruct (Q.min_spec x y) as [[A B]|[A B]]; rewrite B in *; clear B
  end.
(* split a [tsem] hypothesis into its arms *)
Ltac tsem_split H :=
  cbn [tsem_o tsem armsem cholds] in H;
  match type of H with
  | _ \/ _ => let C := fresh "C" in destruct H as [[C H]|[C H]]; cbn [armsem] in H; try contradiction
  | _ => idtac
  end.

(* local sign lemma of one line: the rounded value of a non-negative expression is non-negative *)
Ltac nn_tac p :=
  let H := fresh "H" in
  intros ? ? ? H; cbn [nn_hyp]; intros;
  tsem_split H; rewrite H;
  try (apply qround_nonneg; [lia|]); cbn [xeval] in *;
  num_cases; try congruence; mm_cases; lra.

(** from the catalogue model to [tsem]: a stored value that is what the line's definition yields on the store *)
Definition ltype_of (cat:catalogue) (f l:string) : option ltype :=
  match line_of cat f l with Some ln => Some (l_type ln) | None => None end.
Definition line_fix (cat:catalogue) (c:ctx) (fuel:nat) (f n:string) (q:Q) : Prop :=
  match line_of cat f n with Some l => line_value c fuel l = RVal (PNum q) | None => False end.

Lemma line_fix_tsem cat c fuel f n q ev ei t p :
  line_fix cat c fuel f n q -> top_of cat f n = Some t -> ltype_of cat f n = Some (TFloat p) -> (100 <= fuel)%nat ->
  top_ok c ev ei t -> tsem ev ei p t q.
Proof.
  unfold line_fix, top_of, ltype_of. destruct (line_of cat f n) as [l|]; [|contradiction].
  intros Hv Ht Hp Hf Hok. inversion Hp as [Hp']. eapply xtop_sound; eassumption.
Qed.
Lemma line_fix_grid cat c fuel f n q p :
  line_fix cat c fuel f n q -> ltype_of cat f n = Some (TFloat p) -> grid p q.
Proof.
  unfold line_fix, ltype_of. destruct (line_of cat f n) as [l|]; [|contradiction].
  intros Hv Hp. inversion Hp as [Hp']. eapply line_grid; eassumption.
Qed.
