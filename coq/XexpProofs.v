(** Soundness of [Xexp.xcomp] / [Xexp.xtop] against the interpreter of [Forms], for every store:
    whatever money value the model of FloatField.value stores for a line whose body [xtop] recognises satisfies [tsem]. *)
From Coq Require Import ZArith QArith Qminmax Qround List String Bool Lia.
From HV Require Import Forms Xexp.
Import ListNotations.
Open Scope string_scope.

Lemma append_nil_r (s:string) : s ++ "" = s.
Proof. induction s; cbn; [reflexivity|rewrite IHs; reflexivity]. Qed.

Lemma Qle_bool_false x y : Qle_bool x y = false -> y < x.
Proof. intros H. apply Qnot_le_lt. intros C. apply Qle_bool_iff in C. congruence. Qed.

Lemma pick_max x y : (if negb (Qle_bool y x) then y else x) == Qmax x y.
Proof.
  destruct (Qle_bool y x) eqn:E; cbn.
  - apply Qle_bool_iff in E. symmetry. apply Q.max_l. exact E.
  - apply Qle_bool_false in E. symmetry. apply Q.max_r. apply Qlt_le_weak. exact E.
Qed.
Lemma pick_min x y : (if negb (Qle_bool x y) then y else x) == Qmin x y.
Proof.
  destruct (Qle_bool x y) eqn:E; cbn.
  - apply Qle_bool_iff in E. symmetry. apply Q.min_l. exact E.
  - apply Qle_bool_false in E. symmetry. apply Q.min_r. apply Qlt_le_weak. exact E.
Qed.

Lemma num_cmp_comp op x x' y y' : x == x' -> y == y' -> num_cmp op x y = num_cmp op x' y'.
Proof. intros Ex Ey. unfold num_cmp. destruct op; try reflexivity; rewrite Ex, Ey; reflexivity. Qed.

Lemma rhe_comp x y : x == y -> rhe x = rhe y.
Proof.
  intros E. unfold rhe. rewrite (Qfloor_comp _ _ E). set (f := Qfloor y).
  assert (E3 : Qcompare (x - inject_Z f) (1 # 2) = Qcompare (y - inject_Z f) (1 # 2)).
  { apply Qcompare_comp; [rewrite E; reflexivity|reflexivity]. }
  rewrite E3. reflexivity.
Qed.
Lemma qround_compat p q q' : q == q' -> qround p q = qround p q'.
Proof.
  intros E. unfold qround.
  assert (H : rhe (q * pow10 p) = rhe (q' * pow10 p)) by (apply rhe_comp; rewrite E; reflexivity).
  rewrite H. reflexivity.
Qed.


Fixpoint qsum (l:list Q) : Q := match l with [] => 0 | x :: r => x + qsum r end.

Lemma xchain_eval ev ei l : forall acc, xeval ev ei (xchain acc l) == xeval ev ei acc + qsum (map (xeval ev ei) l).
Proof. induction l as [|a l IH]; intros acc; cbn [xchain map qsum]; [ring|]. rewrite IH. cbn [xeval]. ring. Qed.

Lemma xchain_lines l : forall acc n, In n (xlines (xchain acc l)) <-> In n (xlines acc) \/ exists a, In a l /\ In n (xlines a).
Proof.
  induction l as [|a l IH]; intros acc n; cbn [xchain].
  - split; [auto|intros [H|(a & [] & _)]; exact H].
  - rewrite IH. cbn [xlines]. rewrite in_app_iff. split.
    + intros [[H|H]|(b & Hb & Hn)]; [auto|right; exists a; split; [left; reflexivity|exact H]|right; exists b; split; [right; exact Hb|exact Hn]].
    + intros [H|(b & [<-|Hb] & Hn)]; [left; left; exact H|left; right; exact Hn|right; exists b; auto].
Qed.
Lemma xchain_inps l : forall acc n, In n (xinps (xchain acc l)) <-> In n (xinps acc) \/ exists a, In a l /\ In n (xinps a).
Proof.
  induction l as [|a l IH]; intros acc n; cbn [xchain].
  - split; [auto|intros [H|(a & [] & _)]; exact H].
  - rewrite IH. cbn [xinps]. rewrite in_app_iff. split.
    + intros [[H|H]|(b & Hb & Hn)]; [auto|right; exists a; split; [left; reflexivity|exact H]|right; exists b; split; [right; exact Hb|exact Hn]].
    + intros [H|(b & [<-|Hb] & Hn)]; [left; left; exact H|left; right; exact Hn|right; exists b; auto].
Qed.

Lemma slookup_sset_same {A} k (a:A) l : slookup k (sset k a l) = Some a.
Proof.
  induction l as [|[k' a'] r IH]; cbn.
  - rewrite String.eqb_refl. reflexivity.
  - destruct (String.eqb k k') eqn:E; cbn; rewrite ?String.eqb_refl, ?E; auto.
Qed.

Lemma str_of_item it s : item_str it = Some s -> str_of it = RVal s.
Proof. destruct it; cbn; try discriminate; intros H; inversion H; reflexivity. Qed.

Lemma bind_val {A B} (a:A) (k:A -> res B) : (x <- RVal a ;; k x) = k a.
Proof. reflexivity. Qed.

Lemma typed_float_num p q0 q : typed_value (TFloat p) (PNum q0) = RVal (PNum q) -> q = qround p q0.
Proof. unfold typed_value. cbv beta iota zeta. intros H. inversion H. reflexivity. Qed.
Lemma typed_float_none p q : typed_value (TFloat p) PNone = RVal (PNum q) -> q = 0.
Proof. unfold typed_value. cbv beta iota zeta. intros H. inversion H. reflexivity. Qed.

Section Sound.
Context (c:ctx).

Lemma eval_const m v r : eval c (S m) (EConst v) r = RVal v.
Proof. reflexivity. Qed.
Lemma eval_bin m op a b r : eval c (S m) (EBin op a b) r = (x <- eval c m a r ;; y <- eval c m b r ;; arith op x y).
Proof. reflexivity. Qed.
Lemma eval_cmp m op a b r : eval c (S m) (ECmp op a b) r = (x <- eval c m a r ;; y <- eval c m b r ;; compare_pv op x y).
Proof. reflexivity. Qed.
Lemma eval_neg m a r : eval c (S m) (ENeg a) r = (x <- eval c m a r ;; arith OSub (PInt 0) x).
Proof. reflexivity. Qed.
Lemma eval_if m cnd t f r : eval c (S m) (EIf cnd t f) r = (x <- eval c m cnd r ;; if truthy x then eval c m t r else eval c m f r).
Proof. reflexivity. Qed.
Lemma eval_unimpl m r : eval c (S m) EUnimpl r = RUnimpl.
Proof. reflexivity. Qed.
Lemma eval_call1 m f a r : eval c (S m) (ECall f [a]) r = (v <- eval c m a r ;; call_fn c f [v]).
Proof. cbn [eval]. destruct (eval c m a r); reflexivity. Qed.
Lemma eval_call2 m f a b r : eval c (S m) (ECall f [a; b]) r = (v <- eval c m a r ;; w <- eval c m b r ;; call_fn c f [v; w]).
Proof. cbn [eval]. destruct (eval c m a r); cbn [bind]; try reflexivity. destruct (eval c m b r); reflexivity. Qed.
Lemma eval_read_lit m k s r : eval c (S m) (ERead k [NLit s]) r = do_read c k s.
Proof. cbn [eval bind]. rewrite append_nil_r. reflexivity. Qed.
Lemma eval_read_const m k s r : eval c (S (S m)) (ERead k [NExp (EConst (PStr s))]) r = do_read c k s.
Proof. cbn [eval bind str_of]. rewrite append_nil_r. reflexivity. Qed.
Lemma exec_return m e r : exec c (S m) [SReturn e] r = (v <- eval c m e r ;; RVal (r, SigReturn v)).
Proof. reflexivity. Qed.


Definition ename (m:nat) (r:env) : list npart -> res string :=
  fix go (l:list npart) : res string :=
    match l with
    | [] => RVal ""
    | NLit s :: t => rest <- go t ;; RVal (s ++ rest)
    | NExp x :: t => v <- eval c m x r ;; s <- str_of v ;; rest <- go t ;; RVal (s ++ rest)
    end.
Lemma eval_read m k parts r : eval c (S m) (ERead k parts) r = (s <- ename m r parts ;; do_read c k s).
Proof. reflexivity. Qed.
Definition elist (m:nat) (r:env) : list expr -> res (list pv) :=
  fix go (l:list expr) : res (list pv) :=
    match l with [] => RVal [] | x :: t => v <- eval c m x r ;; vs <- go t ;; RVal (v :: vs) end.
Lemma eval_elist m l r : eval c (S m) (EList l) r = (vs <- elist m r l ;; RVal (PList vs)).
Proof. reflexivity. Qed.

Lemma ename_with x s it m r : forall parts nm,
  name_with x s parts = Some nm -> slookup x r = Some it -> str_of it = RVal s ->
  ename (S m) r parts = RVal nm.
Proof.
  induction parts as [|p t IH]; intros nm Hn Hx Hs; cbn [name_with] in Hn.
  - inversion Hn. reflexivity.
  - destruct p as [lit|e].
    + destruct (name_with x s t) as [rest|] eqn:E; [|discriminate]. cbn in Hn. inversion Hn; subst.
      cbn [ename]. fold (ename (S m) r). rewrite (IH rest eq_refl Hx Hs). reflexivity.
    + destruct e; try discriminate. destruct (String.eqb x x0) eqn:Ex; [|discriminate]. apply String.eqb_eq in Ex. subst x0.
      destruct (name_with x s t) as [rest|] eqn:E; [|discriminate]. cbn in Hn. inversion Hn; subst.
      cbn [ename]. fold (ename (S m) r).
      change (eval c (S m) (EVar x) r) with (match slookup x r with Some v => RVal v | None => RCrash CName end).
      rewrite Hx. cbn [bind]. rewrite Hs. cbn [bind]. rewrite (IH rest eq_refl Hx Hs). reflexivity.
Qed.

Lemma sum_fold : forall (l:list Q) (a:Q),
  exists q, fold_left (fun acc x => a0 <- acc ;; arith OAdd a0 x) (map PNum l) (RVal (PNum a)) = RVal (PNum q) /\ q == a + qsum l.
Proof.
  induction l as [|x l IH]; intros a; cbn [map fold_left qsum].
  - exists a. split; [reflexivity|ring].
  - cbn [bind]. change (arith OAdd (PNum a) (PNum x)) with (RVal (PNum (Qred (a + x)))).
    destruct (IH (Qred (a + x))) as (q & E & Hq). exists q. split; [exact E|].
    rewrite Hq, Qred_correct. ring.
Qed.
Lemma sum_nonempty q0 qs : exists q, call_fn c FSum [PList (map PNum (q0 :: qs))] = RVal (PNum q) /\ q == q0 + qsum qs.
Proof.
  cbn [call_fn map fold_left bind].
  change (arith OAdd (PInt 0) (PNum q0)) with (RVal (PNum (Qred (inject_Z 0 + q0)))).
  destruct (sum_fold qs (Qred (inject_Z 0 + q0))) as (q & E & Hq). exists q. split; [exact E|].
  rewrite Hq, Qred_correct. change (inject_Z 0) with 0. ring.
Qed.

(* the comprehension over a constant list reads one line per item *)
Lemma comp_const_fold m r parts x ev : forall (items:list pv) (xs:list xexp) (acc:list pv),
  comp_names x parts items = Some xs ->
  (forall a, In a xs -> forall n, In n (xlines a) -> exists q, slookup (qualify c n) (x_vals c) = Some (PNum q) /\ q == ev n) ->
  exists qs,
    fold_left (fun acc it =>
                 a <- acc ;;
                 keep <- RVal true ;;
                 if keep then v <- eval c (S (S m)) (ERead RV parts) (sset x it r) ;; RVal (a ++ [v])%list else RVal a)
              items (RVal acc) = RVal (acc ++ map PNum qs)%list
    /\ List.length qs = List.length xs /\ forall ei, qsum qs == qsum (map (xeval ev ei) xs).
Proof.
  induction items as [|it items IH]; intros xs acc Hc Hok; unfold comp_names in Hc; cbn [omap] in Hc.
  - inversion Hc; subst. exists []. cbn. rewrite app_nil_r. split; [reflexivity|]. split; [reflexivity|]. intros; reflexivity.
  - destruct (item_str it) as [s|] eqn:Es; [|discriminate].
    destruct (name_with x s parts) as [nm|] eqn:En; [|discriminate]. cbn [option_map] in Hc.
    fold (comp_names x parts items) in Hc.
    destruct (comp_names x parts items) as [r0|] eqn:Er; [|discriminate]. inversion Hc; subst. clear Hc.
    destruct (Hok (XLine nm) (or_introl eq_refl) nm (or_introl eq_refl)) as (q & Hq & Eq).
    cbn [fold_left]. rewrite !bind_val.
    rewrite eval_read, (ename_with x s it m (sset x it r) parts nm En (slookup_sset_same _ _ _) (str_of_item _ _ Es)).
    rewrite bind_val. unfold do_read. rewrite Hq. rewrite bind_val.
    destruct (IH r0 (acc ++ [PNum q])%list eq_refl) as (qs & Ef & El & Es2).
    { intros a Ha. apply Hok. right. exact Ha. }
    exists (q :: qs). split; [|split].
    + rewrite Ef. rewrite <- app_assoc. reflexivity.
    + cbn. rewrite El. reflexivity.
    + intros ei. cbn [qsum map xeval]. rewrite (Es2 ei), Eq. reflexivity.
Qed.

(* the store holds money values for the lines and inputs that are read *)
Definition reads_ok (ev ei:string -> Q) (ls is_:list string) : Prop :=
  (forall n, In n ls -> exists q, slookup (qualify c n) (x_vals c) = Some (PNum q) /\ q == ev n) /\
  (forall n, In n is_ -> exists q, slookup (qualify c n) (x_inps c) = Some (PNum q) /\ q == ei n).

Lemma reads_ok_app ev ei l1 l2 i1 i2 :
  reads_ok ev ei (l1 ++ l2) (i1 ++ i2) -> reads_ok ev ei l1 i1 /\ reads_ok ev ei l2 i2.
Proof.
  intros [Hl Hi]. split; split; intros n Hn; try (apply Hl; apply in_or_app; auto); apply Hi; apply in_or_app; auto.
Qed.

Lemma xcomp_sound n : forall e a,
  xcomp n e = Some a ->
  forall fuel r ev ei, (2 * n + 2 <= fuel)%nat -> reads_ok ev ei (xlines a) (xinps a) ->
  exists q, eval c fuel e r = RVal (PNum q) /\ q == xeval ev ei a.
Proof.
  induction n as [|n IH]; intros e a Hc fuel r ev ei Hf Hok; [discriminate|].
  destruct fuel as [|m]; [lia|]. assert (Hm : (2 * n + 2 <= m)%nat) by lia.
  destruct e; cbn [xcomp] in Hc; try discriminate.
  - (* constant *)
    destruct v; try discriminate. inversion Hc; subst. exists q. split; reflexivity.
  - (* v['line'] / i['input'] *)
    destruct (lit_name name) as [s|] eqn:Hs; [|destruct k; discriminate].
    assert (Er : eval c (S m) (ERead k name) r = do_read c k s).
    { unfold lit_name in Hs. destruct name as [|[s0|x] t]; try discriminate.
      - destruct t; try discriminate. inversion Hs; subst. apply eval_read_lit.
      - destruct x; try discriminate. destruct v; try discriminate. destruct t; try discriminate. inversion Hs; subst.
        destruct m as [|m']; [lia|]. apply eval_read_const. }
    rewrite Er.
    destruct k; cbn in Hc; inversion Hc; subst.
    + destruct Hok as [Hl _]. destruct (Hl s (or_introl eq_refl)) as (q & Hq & Eq).
      exists q. split; [|exact Eq]. unfold do_read. rewrite Hq. reflexivity.
    + destruct Hok as [_ Hi]. destruct (Hi s (or_introl eq_refl)) as (q & Hq & Eq).
      exists q. split; [|exact Eq]. unfold do_read. rewrite Hq. reflexivity.
  - (* binary operators *)
    rewrite eval_bin.
    destruct op; try discriminate.
    + destruct (xcomp n e1) as [x|] eqn:E1; [|discriminate].
      destruct (xcomp n e2) as [y|] eqn:E2; [|discriminate]. inversion Hc; subst.
      destruct (reads_ok_app _ _ _ _ _ _ Hok) as [Hx Hy].
      destruct (IH e1 x E1 m r ev ei Hm Hx) as (qx & Ex & Qx). destruct (IH e2 y E2 m r ev ei Hm Hy) as (qy & Ey & Qy).
      exists (Qred (qx + qy)). split.
      * rewrite Ex. cbn [bind]. rewrite Ey. reflexivity.
      * rewrite Qred_correct. cbn [xeval]. rewrite Qx, Qy. reflexivity.
    + destruct (xcomp n e1) as [x|] eqn:E1; [|discriminate].
      destruct (xcomp n e2) as [y|] eqn:E2; [|discriminate]. inversion Hc; subst.
      destruct (reads_ok_app _ _ _ _ _ _ Hok) as [Hx Hy].
      destruct (IH e1 x E1 m r ev ei Hm Hx) as (qx & Ex & Qx). destruct (IH e2 y E2 m r ev ei Hm Hy) as (qy & Ey & Qy).
      exists (Qred (qx - qy)). split.
      * rewrite Ex. cbn [bind]. rewrite Ey. reflexivity.
      * rewrite Qred_correct. cbn [xeval]. rewrite Qx, Qy. reflexivity.
    + (* multiplication by a literal, either side *)
      destruct m as [|m']; [lia|].
      destruct (num_lit e2) as [k|] eqn:Ek.
      * destruct (xcomp n e1) as [x|] eqn:E1; [|discriminate]. cbn in Hc. inversion Hc; subst.
        destruct e2; try discriminate. destruct v; try discriminate. cbn in Ek. inversion Ek; subst.
        destruct (IH e1 x E1 (S m') r ev ei Hm Hok) as (qx & Ex & Qx).
        exists (Qred (qx * k)). split.
        -- rewrite Ex, eval_const. reflexivity.
        -- rewrite Qred_correct. cbn [xeval]. rewrite Qx. reflexivity.
      * destruct (num_lit e1) as [k|] eqn:Ek1; [|discriminate].
        destruct (xcomp n e2) as [x|] eqn:E2; [|discriminate]. cbn in Hc. inversion Hc; subst.
        destruct e1; try discriminate. destruct v; try discriminate. cbn in Ek1. inversion Ek1; subst.
        destruct (IH e2 x E2 (S m') r ev ei Hm Hok) as (qx & Ex & Qx).
        exists (Qred (k * qx)). split.
        -- rewrite eval_const. cbn [bind]. rewrite Ex. reflexivity.
        -- rewrite Qred_correct. cbn [xeval]. rewrite Qx. ring.
  - (* negation *)
    destruct (xcomp n e) as [x|] eqn:E1; [|discriminate]. cbn in Hc. inversion Hc; subst.
    destruct (IH e x E1 m r ev ei Hm Hok) as (qx & Ex & Qx).
    exists (Qred (inject_Z 0 - qx)). split.
    + rewrite eval_neg, Ex. reflexivity.
    + rewrite Qred_correct. cbn [xeval]. rewrite Qx. change (inject_Z 0) with 0. ring.
  - (* conditional on a numeric comparison *)
    destruct e1; try discriminate.
    destruct (is_ord op) eqn:Eo; [|discriminate].
    destruct (xcomp n e1_1) as [ca|] eqn:Ea; [|discriminate].
    destruct (xcomp n e1_2) as [cb|] eqn:Eb; [|discriminate].
    destruct (xcomp n e2) as [ct|] eqn:Et; [|discriminate].
    destruct (xcomp n e3) as [ce|] eqn:Ee; [|discriminate]. inversion Hc; subst.
    cbn [xlines xinps] in Hok.
    destruct (reads_ok_app _ _ _ _ _ _ Hok) as [Ha Hok2].
    destruct (reads_ok_app _ _ _ _ _ _ Hok2) as [Hb Hok3].
    destruct (reads_ok_app _ _ _ _ _ _ Hok3) as [Ht He].
    destruct m as [|m']; [lia|]. assert (Hm' : (2 * n + 2 <= m')%nat) by lia.
    destruct (IH e1_1 ca Ea m' r ev ei Hm' Ha) as (qa & Exa & Qa).
    destruct (IH e1_2 cb Eb m' r ev ei Hm' Hb) as (qb & Exb & Qb).
    destruct (IH e2 ct Et (S m') r ev ei Hm Ht) as (qt & Ext & Qt).
    destruct (IH e3 ce Ee (S m') r ev ei Hm He) as (qe & Exe & Qe).
    rewrite eval_if, eval_cmp, Exa. cbn [bind]. rewrite Exb. cbn [bind].
    assert (Hcmp : compare_pv op (PNum qa) (PNum qb) = RVal (PBool (num_cmp op qa qb))) by (destruct op; try discriminate; reflexivity).
    rewrite Hcmp. cbn [bind truthy xeval].
    rewrite <- (num_cmp_comp op qa _ qb _ Qa Qb).
    destruct (num_cmp op qa qb).
    + exists qt. split; assumption.
    + exists qe. split; assumption.
  - (* calls: sum / max / min / float *)
    destruct f; try discriminate.
    + (* sum over an explicit list, or over a comprehension on a constant list *)
      assert (Hel : forall a0 xs, In a0 xs -> (forall nm, In nm (xlines a0) -> exists x0 xr, xs = x0 :: xr) -> True) by (intros; exact I).
      clear Hel.
      repeat match type of Hc with context[match ?v with _ => _ end] => destruct v eqn:?; try discriminate end;
        inversion Hc; subst; clear Hc.
      * (* EList *)
        match goal with E : omap (xcomp n) _ = Some (?x0 :: ?xr) |- _ => rename E into Eo; set (X0 := x0) in *; set (XR := xr) in * end.
        destruct m as [|m']; [lia|].
        assert (Hall : forall a', In a' (X0 :: XR) -> reads_ok ev ei (xlines a') (xinps a')).
        { intros a' Ha'. destruct Hok as [Hl Hi]. split; intros nm Hn.
          - apply Hl. apply xchain_lines. destruct Ha' as [<-|Ha']; [left; exact Hn|right; exists a'; auto].
          - apply Hi. apply xchain_inps. destruct Ha' as [<-|Ha']; [left; exact Hn|right; exists a'; auto]. }
        assert (HL : forall lst xs, omap (xcomp n) lst = Some xs -> (forall a', In a' xs -> reads_ok ev ei (xlines a') (xinps a')) ->
                     exists qs, elist m' r lst = RVal (map PNum qs) /\ qsum qs == qsum (map (xeval ev ei) xs) /\ List.length qs = List.length xs).
        { induction lst as [|ee ll IHll]; intros xs Ho Hr; cbn [omap] in Ho.
          - inversion Ho; subst. exists []. repeat split; reflexivity.
          - destruct (xcomp n ee) as [a1|] eqn:Ea; [|discriminate].
            destruct (omap (xcomp n) ll) as [r0|] eqn:Ell; [|discriminate]. inversion Ho; subst.
            destruct (IH ee a1 Ea m' r ev ei ltac:(lia) (Hr a1 (or_introl eq_refl))) as (q1 & Eq1 & Qq1).
            destruct (IHll r0 eq_refl (fun a' Ha' => Hr a' (or_intror Ha'))) as (qs & E2 & S2 & L2).
            exists (q1 :: qs). split; [|split].
            + cbn [elist]. fold (elist m' r). rewrite Eq1, bind_val, E2, bind_val. reflexivity.
            + cbn [qsum map]. rewrite S2, Qq1. reflexivity.
            + cbn. rewrite L2. reflexivity. }
        destruct (HL _ _ Eo Hall) as (qs & El & Sq & Lq).
        destruct qs as [|q0 qs']; [cbn in Lq; discriminate|].
        rewrite eval_call1, eval_elist, El, !bind_val.
        destruct (sum_nonempty q0 qs') as (q & Eq & Hq). exists q. split; [exact Eq|].
        rewrite Hq, xchain_eval. cbn [qsum map] in Sq. exact Sq.
      * (* comprehension over a constant list *)
        match goal with E : comp_names _ _ _ = Some (?x0 :: ?xr) |- _ => rename E into Eo; set (X0 := x0) in *; set (XR := xr) in * end.
        destruct m as [|[|[|m3]]]; try lia.
        rewrite eval_call1.
        match goal with |- context[eval c (S (S (S m3))) (EComp (ERead RV ?parts) ?x (EConst (PList ?items)) None) r] =>
          change (eval c (S (S (S m3))) (EComp (ERead RV parts) x (EConst (PList items)) None) r)
            with (s0 <- eval c (S (S m3)) (EConst (PList items)) r ;;
                  match (match s0 with PStr str => PList (map (fun ch => PStr (String ch "")) (list_ascii_of_string str)) | _ => s0 end) with
                  | PList its | PTuple its =>
                      a0 <- fold_left (fun acc it =>
                                   a0 <- acc ;;
                                   keep <- RVal true ;;
                                   if keep then v <- eval c (S (S m3)) (ERead RV parts) (sset x it r) ;; RVal (a0 ++ [v])%list else RVal a0)
                                its (RVal []) ;;
                      RVal (PList a0)
                  | _ => RCrash CTypeError
                  end);
          rewrite eval_const, bind_val; cbv beta iota;
          destruct (comp_const_fold m3 r parts x ev items (X0 :: XR) [] Eo) as (qs & Ef & Lq & Sq)
        end.
        { intros a' Ha' nm Hn. destruct Hok as [Hl _]. apply Hl. apply xchain_lines.
          destruct Ha' as [<-|Ha']; [left; exact Hn|right; exists a'; auto]. }
        rewrite Ef, !bind_val. cbn [app].
        destruct qs as [|q0 qs']; [cbn in Lq; discriminate|].
        destruct (sum_nonempty q0 qs') as (q & Eq & Hq). exists q. split; [exact Eq|].
        rewrite Hq, xchain_eval. pose proof (Sq ei) as S1. cbn [qsum map] in S1. exact S1.
    + destruct args as [|e1 [|e2 [|]]]; try discriminate.
      destruct (xcomp n e1) as [x|] eqn:E1; [|discriminate].
      destruct (xcomp n e2) as [y|] eqn:E2; [|discriminate]. inversion Hc; subst.
      destruct (reads_ok_app _ _ _ _ _ _ Hok) as [Hx Hy].
      destruct (IH e1 x E1 m r ev ei Hm Hx) as (qx & Ex & Qx). destruct (IH e2 y E2 m r ev ei Hm Hy) as (qy & Ey & Qy).
      exists (if negb (Qle_bool qx qy) then qy else qx). split.
      * rewrite eval_call2, Ex. cbn [bind]. rewrite Ey. cbn [bind call_fn fold_left compare_pv as_num num_cmp truthy].
        destruct (negb (Qle_bool qx qy)); reflexivity.
      * rewrite pick_min. cbn [xeval]. rewrite Qx, Qy. reflexivity.
    + destruct args as [|e1 [|e2 [|]]]; try discriminate.
      destruct (xcomp n e1) as [x|] eqn:E1; [|discriminate].
      destruct (xcomp n e2) as [y|] eqn:E2; [|discriminate]. inversion Hc; subst.
      destruct (reads_ok_app _ _ _ _ _ _ Hok) as [Hx Hy].
      destruct (IH e1 x E1 m r ev ei Hm Hx) as (qx & Ex & Qx). destruct (IH e2 y E2 m r ev ei Hm Hy) as (qy & Ey & Qy).
      exists (if negb (Qle_bool qy qx) then qy else qx). split.
      * rewrite eval_call2, Ex. cbn [bind]. rewrite Ey. cbn [bind call_fn fold_left compare_pv as_num num_cmp truthy].
        destruct (negb (Qle_bool qy qx)); reflexivity.
      * rewrite pick_max. cbn [xeval]. rewrite Qx, Qy. reflexivity.
    + destruct args as [|e1 [|]]; try discriminate.
      destruct (IH e1 a Hc m r ev ei Hm Hok) as (q & E & Qq). exists q. split; [|exact Qq].
      rewrite eval_call1, E. reflexivity.
Qed.

Lemma xarm_cases e a : xarm e = Some a ->
  (e = EConst PNone /\ a = ABlank) \/ (e = EUnimpl /\ a = AUnimpl) \/ (exists x, a = AVal x /\ xcomp 40 e = Some x).
Proof.
  intros H.
  assert (G : option_map AVal (xcomp 40 e) = Some a -> exists x, a = AVal x /\ xcomp 40 e = Some x).
  { destruct (xcomp 40 e) as [x|]; [|discriminate]. cbn. intros E. inversion E. exists x. auto. }
  unfold xarm in H.
  destruct e; cbv beta iota in H; try (right; right; apply G; exact H).
  - destruct v; cbv beta iota in H; try (right; right; apply G; exact H). left. inversion H. auto.
  - right. left. inversion H. auto.
Qed.

Lemma xcond_cases e k : xcond e = k ->
  k = COpaque \/ exists op a b x y, e = ECmp op a b /\ is_ord op = true /\ xcomp 40 a = Some x /\ xcomp 40 b = Some y /\ k = CCmp op x y.
Proof.
  intros H. unfold xcond in H. destruct e; cbv beta iota in H; try (left; symmetry; exact H).
  destruct (is_ord op) eqn:Eo; [|left; auto].
  destruct (xcomp 40 e1) as [x|] eqn:E1; [|left; auto].
  destruct (xcomp 40 e2) as [y|] eqn:E2; [|left; auto].
  right. exists op, e1, e2, x, y. auto.
Qed.

Definition top_ok (ev ei:string -> Q) (t:top) : Prop := reads_ok ev ei (top_lines t) (top_inps t).

Lemma arm_sound e a p ev ei fuel r v q :
  xarm e = Some a -> (90 <= fuel)%nat -> reads_ok ev ei (arm_lines a) (arm_inps a) ->
  eval c fuel e r = RVal v -> typed_value (TFloat p) v = RVal (PNum q) -> armsem ev ei p a q.
Proof.
  intros Ha Hf Hok Ev Tv.
  destruct (xarm_cases e a Ha) as [[E A]|[[E A]|(x & A & Hx)]]; subst.
  - destruct fuel; [lia|]. rewrite eval_const in Ev. inversion Ev; subst. rewrite (typed_float_none p q Tv). cbn. reflexivity.
  - destruct fuel; [lia|]. rewrite eval_unimpl in Ev. discriminate.
  - cbn [arm_lines arm_inps] in Hok.
    destruct (xcomp_sound 40 e x Hx fuel r ev ei ltac:(lia) Hok) as (q0 & E0 & Q0).
    rewrite E0 in Ev. inversion Ev; subst. rewrite (typed_float_num p q0 q Tv). cbn [armsem].
    rewrite (qround_compat p q0 _ Q0). reflexivity.
Qed.

Theorem xtop_sound (l:line) t p ev ei fuel q :
  xtop (l_body l) = Some t -> l_type l = TFloat p -> (100 <= fuel)%nat -> top_ok ev ei t ->
  line_value c fuel l = RVal (PNum q) -> tsem ev ei p t q.
Proof.
  intros Hc Ht Hf Hok Hv.
  unfold xtop in Hc.
  destruct (l_body l) as [|s [|s2 rest]] eqn:Eb; try discriminate; [|destruct s; discriminate].
  destruct s; try discriminate.
  unfold line_value in Hv. rewrite Eb in Hv.
  destruct fuel as [|m]; [lia|]. rewrite exec_return in Hv. rewrite Ht in Hv.
  destruct (xcomp 40 e) as [x|] eqn:Ex.
  - inversion Hc; subst. unfold top_ok in Hok. cbn [top_lines top_inps] in Hok.
    destruct (xcomp_sound 40 e x Ex m [] ev ei ltac:(lia) Hok) as (q0 & E0 & Q0).
    rewrite E0 in Hv. cbn [bind snd] in Hv. rewrite (typed_float_num p q0 q Hv). cbn [tsem].
    rewrite (qround_compat p q0 _ Q0). reflexivity.
  - destruct e; try discriminate.
    destruct (xarm e2) as [a2|] eqn:A2; [|discriminate].
    destruct (xarm e3) as [a3|] eqn:A3; [|discriminate]. inversion Hc; subst. clear Hc.
    destruct m as [|m']; [lia|]. rewrite eval_if in Hv.
    destruct (eval c m' e1 []) as [xc| | | |] eqn:Ec; cbn [bind] in Hv; try discriminate.
    unfold top_ok in Hok. cbn [top_lines top_inps] in Hok.
    destruct (reads_ok_app _ _ _ _ _ _ Hok) as [Hcnd Hok2].
    destruct (reads_ok_app _ _ _ _ _ _ Hok2) as [H2 H3].
    assert (Hch : cholds ev ei (xcond e1) = None \/ cholds ev ei (xcond e1) = Some (truthy xc)).
    { destruct (xcond_cases e1 _ eq_refl) as [K|(op & a & b & x & y & E1 & Eo & Xa & Xb & K)].
      - left. rewrite K. reflexivity.
      - right. rewrite K. rewrite K in Hcnd. subst e1. cbn [cholds].
        destruct (reads_ok_app _ _ _ _ _ _ Hcnd) as [Ha Hb].
        destruct m' as [|m'']; [lia|]. rewrite eval_cmp in Ec.
        destruct (xcomp_sound 40 a x Xa m'' [] ev ei ltac:(lia) Ha) as (qa & Ea & Qa).
        destruct (xcomp_sound 40 b y Xb m'' [] ev ei ltac:(lia) Hb) as (qb & Eb' & Qb).
        rewrite Ea in Ec. cbn [bind] in Ec. rewrite Eb' in Ec. cbn [bind] in Ec.
        assert (Hcmp : compare_pv op (PNum qa) (PNum qb) = RVal (PBool (num_cmp op qa qb))) by (destruct op; try discriminate; reflexivity).
        rewrite Hcmp in Ec. inversion Ec; subst. cbn [truthy].
        rewrite (num_cmp_comp op qa _ qb _ Qa Qb). reflexivity. }
    cbn [tsem].
    destruct (truthy xc) eqn:Tx.
    + left. split; [destruct Hch as [K|K]; rewrite K; discriminate|].
      destruct (eval c m' e2 []) as [v2| | | |] eqn:E2; cbn [bind snd] in Hv; try discriminate.
      apply (arm_sound e2 a2 p ev ei m' [] v2 q A2 ltac:(lia) H2 E2 Hv).
    + right. split; [destruct Hch as [K|K]; rewrite K; discriminate|].
      destruct (eval c m' e3 []) as [v3| | | |] eqn:E3; cbn [bind snd] in Hv; try discriminate.
      apply (arm_sound e3 a3 p ev ei m' [] v3 q A3 ltac:(lia) H3 E3 Hv).
Qed.
End Sound.
