(** C14 — to_string / from_string of the line types (fields.py:66-123), at the level the properties need.
    Integers go through the standard library's decimal strings (the model of str(int) / int(str) on canonical text);
    money values are modelled as scaled integers with a fixed number of fraction digits (the character-level work of
    Python's format/float and the binary64 rounding are trusted, and exercised by the real writer/reader pair). *)
From Coq Require Import ZArith List Bool String Ascii Lia Decimal DecimalString DecimalPos DecimalZ.
From HV Require Import Inputs.
Import ListNotations.
Open Scope string_scope.

(** booleans: str(True) / 'true' == s.strip().lower() *)
Definition bool_to_string (b:bool) : string := if b then "True" else "False".
Definition bool_from_string (s:string) : bool := String.eqb (lower (strip s)) "true".
Theorem bool_rt b : bool_from_string (bool_to_string b) = b.
Proof. destruct b; reflexivity. Qed.

(** integers *)
Definition int_to_string (z:Z) : string := NilZero.string_of_int (Z.to_int z).
Definition int_from_string (s:string) : option Z := option_map Z.of_int (NilZero.int_of_string s).
Theorem int_rt z : int_from_string (int_to_string z) = Some z.
Proof.
  unfold int_from_string, int_to_string. rewrite NilZero.isi.
  - cbn [option_map]. f_equal. apply DecimalZ.of_to.
  - destruct z as [|q|q]; cbn; try discriminate; intros H; inversion H as [H1]; exact (DecimalPos.Unsigned.to_uint_nonnil q H1).
  - destruct z as [|q|q]; cbn; try discriminate; intros H; inversion H as [H1]; exact (DecimalPos.Unsigned.to_uint_nonnil q H1).
Qed.

(** enumerations: to_string = member name, '' for None; from_string = lookup by name, None for '' *)
Definition enum_to_string (v:option string) : string := match v with Some m => m | None => "" end.
Definition enum_from_string (members:list string) (s:string) : option (option string) :=
  if String.eqb s "" then Some None else if mem_s s members then Some (Some s) else None.
Theorem enum_rt members v :
  (match v with Some m => In m members /\ m <> "" | None => True end) ->
  enum_from_string members (enum_to_string v) = Some v.
Proof.
  destruct v as [m|]; cbn; [|reflexivity]. intros [Hin Hne]. unfold enum_from_string.
  destruct (String.eqb_spec m ""); [contradiction|].
  assert (mem_s m members = true) as ->; [|reflexivity].
  unfold mem_s. apply existsb_exists. exists m. split; [exact Hin|apply String.eqb_refl].
Qed.

(** text: the INI layer strips the value; from_string is the identity *)
Definition str_rt_statement (s:string) : Prop := strip (strip s) = strip s.

(** money: a value with p decimal places is k / 10^p.  Its text is sign, integer part, '.', p fraction digits. *)
Fixpoint to_digits (n:nat) (k:Z) : list Z :=        (* least significant first, exactly n digits *)
  match n with O => [] | S m => (k mod 10)%Z :: to_digits m (k / 10)%Z end.
Fixpoint of_digits (l:list Z) : Z := match l with [] => 0%Z | d :: r => (d + 10 * of_digits r)%Z end.

Open Scope Z_scope.
Lemma of_to_digits n : forall k, 0 <= k < 10 ^ Z.of_nat n -> of_digits (to_digits n k) = k.
Proof.
  induction n as [|m IH]; intros k Hk.
  - cbn in *. lia.
  - cbn [to_digits of_digits]. rewrite IH.
    + pose proof (Z.div_mod k 10 ltac:(lia)). lia.
    + rewrite Nat2Z.inj_succ, Z.pow_succ_r in Hk by lia.
      split; [apply Z.div_pos; lia|]. apply Z.div_lt_upper_bound; lia.
Qed.

Record money_text := MoneyText { m_neg : bool; m_int : Z; m_frac : list Z }.
Definition money_to_text (p:nat) (k:Z) : money_text :=
  let a := Z.abs k in MoneyText (k <? 0) (a / 10 ^ Z.of_nat p) (to_digits p (a mod 10 ^ Z.of_nat p)).
Definition money_from_text (p:nat) (t:money_text) : Z :=
  let a := m_int t * 10 ^ Z.of_nat p + of_digits (m_frac t) in if m_neg t then - a else a.

Theorem money_rt p k : money_from_text p (money_to_text p k) = k.
Proof.
  unfold money_from_text, money_to_text. cbn [m_neg m_int m_frac].
  assert (Hp : 0 < 10 ^ Z.of_nat p) by (apply Z.pow_pos_nonneg; lia).
  rewrite of_to_digits by (apply Z.mod_pos_bound; exact Hp).
  pose proof (Z.div_mod (Z.abs k) (10 ^ Z.of_nat p) ltac:(lia)) as E.
  destruct (Z.ltb_spec k 0); lia.
Qed.

(** the tax year stored in the [habutax] section is an integer line *)
Theorem year_rt y : int_from_string (int_to_string y) = Some y.
Proof. apply int_rt. Qed.
